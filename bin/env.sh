# Sourced by bin/check and bin/setup: offline toolchain environment for building /repo.
# The repository uses go.work and needs go >= 1.24; the cached go1.24.0 toolchain is put first on PATH.
export GOPROXY=off GOSUMDB=off GOTOOLCHAIN=local GOFLAGS= GONOSUMDB=* GONOSUMCHECK=1 GOFLAGS=
GO124=/root/go/pkg/mod/golang.org/toolchain@v0.0.1-go1.24.0.linux-amd64/bin
if [ -x "$GO124/go" ]; then export PATH="$GO124:$PATH"; fi
export CGO_ENABLED=${CGO_ENABLED:-1}
VERIF_DIR=${VERIF_DIR:-/verif}
REPO_DIR=${REPO_DIR:-/repo}
export VERIF_DIR REPO_DIR
