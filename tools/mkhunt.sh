#!/usr/bin/env bash
# tools/mkhunt.sh <id> <focus text> — scratch worktree + prompt for an independent violation hunter
set -eu
ID="$1"; FOCUS="$2"
D=/tmp/hunt/$ID
rm -rf "$D"; mkdir -p "$D/out/demo"
git -C /repo worktree prune
git -C /repo worktree add --detach "$D/wt" HEAD >/dev/null 2>&1
cp /verif/tools/all_properties.txt /tmp/hunt/all_properties.txt
python3 - "$D" "$FOCUS" > "$D/PROMPT.txt" <<'PY'
import sys
d,focus=sys.argv[1],sys.argv[2]
t=open('/verif/tools/hunt_prompt.txt').read()
print(t.replace('__WT__',d+'/wt').replace('__OUT__',d+'/out').replace('__PROPS__','/tmp/hunt/all_properties.txt').replace('__FOCUS__',focus))
PY
echo "$D"
