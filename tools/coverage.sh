#!/usr/bin/env bash
# tools/coverage.sh [ids...] — statement coverage of the orbiter packages under the QUICK tier of the checks: a gap finder for
# the alphabets (a branch no check ever executes is a branch no check can judge). Writes /tmp/cov/uncovered.txt.
set -u
source /verif/bin/env.sh
IDS=("$@"); [ ${#IDS[@]} -eq 0 ] && IDS=(C01 C03 C04 C05 C06 C07 C08 C09 C10 C11 C12 C13 C14 C15 C16 C17 C18 C20)
mkdir -p /tmp/cov/vd && cp /verif/known_findings.json /tmp/cov/vd/
python3 - <<'PY'
import json,glob,os
rep={}
for f in sorted(glob.glob('/verif/harness/*.go')):
    rep['/repo/simapp/zz_verif_%s_test.go'%os.path.basename(f)[:-3]]=f
json.dump({'Replace':rep},open('/tmp/cov/ov.json','w'))
PY
(cd /repo/simapp && go test -c -tags verif -overlay /tmp/cov/ov.json -vet=off -cover -coverpkg=github.com/noble-assets/orbiter/v2/... -o /tmp/cov/verif.cover.test .) || exit 2
for p in "${IDS[@]}"; do
  (cd /repo/simapp && VERIF_NO_EXIT=1 VERIF_DIR=/tmp/cov/vd VERIF_PROP=$p VERIF_TIER=quick /tmp/cov/verif.cover.test -test.run '^TestVerif$' -test.count 1 -test.coverprofile=/tmp/cov/$p.out > /tmp/cov/$p.log 2>&1)
  echo "$p rc=$? $(wc -l < /tmp/cov/$p.out 2>/dev/null)"
done
python3 - <<'PY'
import glob,collections,re
cov=collections.defaultdict(int)
for f in glob.glob('/tmp/cov/C*.out'):
    for l in open(f):
        if l.startswith('mode:'): continue
        m=re.match(r'(.*):(\d+)\.(\d+),(\d+)\.(\d+) (\d+) (\d+)',l)
        if not m: continue
        key=(m.group(1),int(m.group(2)),int(m.group(4)),int(m.group(6)))
        cov[key]+=int(m.group(7))
byfile=collections.defaultdict(lambda:[0,0,[]])
for (f,a,b,n),c in cov.items():
    if f.endswith('.pb.go') or f.endswith('.pb.gw.go') or '/api/' in f or '/testutil/' in f or '/simapp/' in f or 'pulsar' in f: continue
    byfile[f][0]+=n
    if c>0: byfile[f][1]+=n
    else: byfile[f][2].append((a,b))
out=open('/tmp/cov/uncovered.txt','w')
tot=sum(v[0] for v in byfile.values()); covd=sum(v[1] for v in byfile.values())
print('statements %d covered %d (%.1f%%)'%(tot,covd,100.0*covd/max(tot,1)),file=out)
for f,(n,c,unc) in sorted(byfile.items()):
    if unc:
        print('%s  %d/%d  uncovered lines: %s'%(f.replace('github.com/noble-assets/orbiter/v2/',''),c,n,' '.join('%d-%d'%x for x in sorted(unc))),file=out)
print(open('/tmp/cov/uncovered.txt').read()[:200])
PY
