#!/usr/bin/env bash
# tools/benign_matrix.sh [id ...] — behaviour-preserving changes (/verif/benign/<id>/patch.diff, written by independent
# sub-agents who were given all twenty property statements): every quick check must exit 0 on the patched tree.
set -u
IDS=("$@"); [ ${#IDS[@]} -eq 0 ] && IDS=($(ls /verif/benign))
WORK=/tmp/bmatrix; rm -rf $WORK; mkdir -p $WORK
mkdir -p $WORK/verif && git -C /verif archive HEAD | tar -x -C $WORK/verif   # the COMMITTED machinery (edits in progress must not leak into a matrix); mkdir -p $WORK/verif/evidence $WORK/verif/replays
PROPS=$(python3 -c "import json;print(' '.join(c['property_id'] for c in json.load(open('/verif/MANIFEST.json'))['checks']))")
source /verif/bin/env.sh
for S in "${IDS[@]}"; do
  D=/verif/benign/$S; WT=$WORK/wt-$S
  git -C /repo worktree prune; git -C /repo worktree add --detach $WT HEAD >/dev/null 2>&1 || { echo "$S worktree failed"; continue; }
  if ! git -C $WT apply $( [ -f $D/patch.rebased.diff ] && echo $D/patch.rebased.diff || echo $D/patch.diff ) 2>/dev/null; then echo "$S PATCH DOES NOT APPLY" | tee $D/matrix.txt; git -C /repo worktree remove --force $WT; continue; fi
  SUITE=$(cd $WT && (go build ./... && (cd simapp && go build ./...) && go test -vet=off -count=1 ./... ) 2>&1 | grep -c '^FAIL')
  echo "suite_fail_lines $SUITE" > $D/matrix.txt
  for PR in $PROPS; do
    OUT=$(cd $WORK/verif && REPO_DIR=$WT bin/check $PR quick 2>&1); RC=$?
    CLS=$(echo "$OUT" | grep -E "^VIOLATION|^HARNESS-ERROR" | sed -E 's/.*kind=([^ ]+) .*/\1/; s/^HARNESS-ERROR.*/HARNESS-ERROR/' | sort | uniq -c | sort -rn | head -3 | awk '{printf "%s×%s ", $1, $2}')
    echo "$PR $RC $CLS" >> $D/matrix.txt
    if [ $RC -ne 0 ]; then mkdir -p $D/alarms; echo "$OUT" | tail -12 | cut -c1-900 > $D/alarms/$PR.txt; fi
  done
  echo "$S: suite_fail_lines=$SUITE alarms: $(awk 'NR>1 && $2!=0{printf "%s(%s) ", $1, $2}' $D/matrix.txt)"
  git -C /repo worktree remove --force $WT >/dev/null 2>&1; rm -rf $WT
done
rm -rf $WORK
