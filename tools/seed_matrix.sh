#!/usr/bin/env bash
# tools/seed_matrix.sh [seed-id ...] — for each seed: scratch worktree of /repo HEAD + patch, run ALL quick checks
# against it (REPO_DIR override, isolated copy of /verif so that evidence/ and replays/ here stay untouched).
# Writes /verif/seeded/<id>/matrix.txt: one line per check: <prop> <exit code> <violation classes>.
set -u
SEEDS=("$@"); [ ${#SEEDS[@]} -eq 0 ] && SEEDS=($(ls /verif/seeded))
WORK=/tmp/matrix.$$; rm -rf $WORK; mkdir -p $WORK
mkdir -p $WORK/verif && git -C /verif archive HEAD | tar -x -C $WORK/verif   # the COMMITTED machinery (edits in progress must not leak into a matrix)
mkdir -p $WORK/verif/evidence $WORK/verif/replays
PROPS=${MATRIX_PROPS:-$(python3 -c "import json;print(' '.join(c['property_id'] for c in json.load(open('/verif/MANIFEST.json'))['checks']))")}
for S in "${SEEDS[@]}"; do
  D=/verif/seeded/$S; P=$D/patch.diff; [ -f $D/patch.rebased.diff ] && P=$D/patch.rebased.diff
  WT=$WORK/wt-$S
  git -C /repo worktree add --detach $WT HEAD >/dev/null 2>&1 || { echo "$S worktree failed"; continue; }
  if ! git -C $WT apply $P 2>/dev/null; then echo "$S PATCH DOES NOT APPLY to HEAD" | tee $D/matrix.txt; git -C /repo worktree remove --force $WT; continue; fi
  [ -n "${MATRIX_PROPS:-}" ] && [ -f $D/matrix.txt ] && cp $D/matrix.txt $D/matrix.old || rm -f $D/matrix.old
  : > $D/matrix.txt
  for PR in $PROPS; do
    OUT=$(cd $WORK/verif && REPO_DIR=$WT bin/check $PR quick 2>&1); RC=$?
    CLS=$(echo "$OUT" | grep -E "^VIOLATION" | sed -E 's/.*kind=([^ ]+) .*/\1/' | sort | uniq -c | sort -rn | head -3 | awk '{printf "%s×%s ", $1, $2}')
    echo "$PR $RC $CLS" >> $D/matrix.txt
  done
  if [ -f $D/matrix.old ]; then   # partial re-run: keep the lines of the checks that were not re-run
    awk 'NR==FNR{seen[$1]=1; next} !($1 in seen)' $D/matrix.txt $D/matrix.old >> $D/matrix.txt; sort -o $D/matrix.txt $D/matrix.txt; rm -f $D/matrix.old
  fi
  echo "$S: $(awk '$2==1{printf "%s ", $1}' $D/matrix.txt)| errors: $(awk '$2>1{printf "%s ", $1}' $D/matrix.txt)"
  git -C /repo worktree remove --force $WT >/dev/null 2>&1; rm -rf $WT
done
rm -rf $WORK
