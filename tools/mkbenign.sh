#!/usr/bin/env bash
# tools/mkbenign.sh <id> <theme text> — scratch worktree + prompt for an independent author of a behaviour-preserving change
set -eu
ID="$1"; THEME="$2"
D=/tmp/benign/$ID
rm -rf "$D"; mkdir -p "$D/out"
git -C /repo worktree prune
git -C /repo worktree add --detach "$D/wt" HEAD >/dev/null 2>&1
cp /verif/tools/all_properties.txt /tmp/benign/all_properties.txt
python3 - "$D" "$THEME" > "$D/PROMPT.txt" <<'PY'
import sys
d,theme=sys.argv[1],sys.argv[2]
t=open('/verif/tools/benign_prompt.txt').read()
print(t.replace('__WT__',d+'/wt').replace('__OUT__',d+'/out').replace('__PROPS__','/tmp/benign/all_properties.txt').replace('__THEME__',theme))
PY
echo "$D"
