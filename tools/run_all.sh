#!/usr/bin/env bash
# tools/run_all.sh [tier] — run every claimed check on the current tree; summary table
TIER=${1:-quick}
cd /verif
for p in $(python3 -c "import json;print(' '.join(c['property_id'] for c in json.load(open('MANIFEST.json'))['checks']))"); do
  s=$(date +%s); out=$(bin/check $p $TIER 2>&1); rc=$?; e=$(( $(date +%s)-s ))
  echo "$p rc=$rc ${e}s $(echo "$out" | grep -c '^KNOWN-FINDING') known $(echo "$out" | grep '^SUMMARY' | cut -c1-160)"
  if [ $rc -ne 0 ]; then echo "$out" | tail -5 | cut -c1-300; fi
done
