#!/usr/bin/env bash
# tools/try_patch.sh <patch.diff> <prop> [tier] [prop2 ...] — apply a patch to /repo, run check(s), ALWAYS revert.
set -u
PATCH="$(readlink -f "$1")"; shift
TIER=quick
cd /repo
if [ -n "$(git status --porcelain)" ]; then echo "/repo not clean"; exit 9; fi
if ! git apply "$PATCH" 2>/dev/null; then
  if ! git apply -3 "$PATCH" >/dev/null 2>&1; then echo "PATCH DOES NOT APPLY"; git reset -q --hard HEAD; exit 8; fi
  git reset -q
fi
trap 'git -C /repo checkout -- . ; git -C /repo clean -fdq' EXIT
for P in "$@"; do
  case "$P" in quick|thorough) TIER=$P; continue;; esac
  echo "=== $P $TIER with $(basename $(dirname $PATCH))/$(basename $PATCH)"
  (cd /verif && VERIF_DIR=/verif bin/check "$P" "$TIER" 2>&1 | tail -${TAILN:-8} | cut -c1-${CUTN:-600}; echo "exit=${PIPESTATUS[0]}")
done
