#!/usr/bin/env bash
# tools/confirm_seed.sh <seed-out-dir> <seed-id> <demo-relpath-dir> <go-test-pkg> <run-regex>
# Confirms, in a FRESH scratch worktree of the pinned commit: patch applies+builds, existing suite green with patch,
# demo fails with patch, demo passes without. On success stores /verif/seeded/<seed-id>/{patch.diff,demo/,confirm.log}.
set -u
OUT="$1"; ID="$2"; DEMODIR="$3"; PKG="$4"; RUN="$5"
source /verif/bin/env.sh
BASE=$(git -C /repo rev-list --max-parents=0 HEAD | tail -1)
[ -f "$OUT/../BASE" ] && BASE=$(cat "$OUT/../BASE")
WT=/tmp/confirm/$ID
rm -rf "$WT"; mkdir -p /tmp/confirm
git -C /repo worktree add --detach "$WT" "$BASE" >/dev/null 2>&1 || { echo "worktree failed"; exit 9; }
trap 'git -C /repo worktree remove --force "$WT" >/dev/null 2>&1; rm -rf "$WT"' EXIT
LOG=$(mktemp)
cd "$WT"
cp "$OUT"/demo/*.go "$WT/$DEMODIR/" || exit 9
echo "## demo WITHOUT patch (must pass)" | tee -a $LOG
(cd "$WT" && go test -vet=off -count=1 -run "$RUN" "$PKG" 2>&1 | tail -5) | tee -a $LOG
R0=${PIPESTATUS[0]}
grep -q "^ok" $LOG || { echo "CONFIRM-FAIL demo does not pass on clean tree"; exit 1; }
git apply "$OUT/patch.diff" || { echo "CONFIRM-FAIL patch does not apply"; exit 1; }
echo "## build + existing suite WITH patch (must pass)" | tee -a $LOG
rm -f "$WT/$DEMODIR"/$(ls "$OUT"/demo | head -1)   # existing suite = without the demo file
for f in "$OUT"/demo/*.go; do rm -f "$WT/$DEMODIR/$(basename $f)"; done
if ! (go build ./... && (cd simapp && go build ./...) && go test -vet=off -count=1 ./... ) > $LOG.suite 2>&1; then
  grep -v "no test files" $LOG.suite | tail -20; echo "CONFIRM-FAIL suite fails with patch"; exit 1; fi
grep -c "^ok" $LOG.suite | sed 's/^/packages ok: /' | tee -a $LOG
cp "$OUT"/demo/*.go "$WT/$DEMODIR/"
echo "## demo WITH patch (must fail)" | tee -a $LOG
go test -vet=off -count=1 -run "$RUN" "$PKG" > $LOG.demo 2>&1
RC=$?
grep -E "^(--- FAIL|FAIL|ok)" $LOG.demo | head -8 | tee -a $LOG
if [ $RC -eq 0 ]; then echo "CONFIRM-FAIL demo passes with patch"; exit 1; fi
mkdir -p /verif/seeded/$ID/demo
cp "$OUT/patch.diff" /verif/seeded/$ID/patch.diff
cp "$OUT"/demo/*.go /verif/seeded/$ID/demo/
for f in /verif/seeded/$ID/demo/*.go; do mv "$f" "$f.txt"; done   # keep them out of any go build
cp "$OUT/NOTES.md" /verif/seeded/$ID/NOTES.md 2>/dev/null
cp $LOG /verif/seeded/$ID/confirm.log
echo "$BASE" > /verif/seeded/$ID/BASE
echo "CONFIRMED $ID"
