#!/usr/bin/env python3
"""Writes /verif/seeded/<id>/meta.json from the table below + matrix.txt (which checks reported a violation)."""
import json, os, re
ROOT='/verif/seeded'
T = {
 # id: (property, file(s) changed, what the change is, what it needs in order to manifest, demo placement/run)
 'C01a': ('C01','keeper/component/forwarder/forwarder.go','balance precondition weakened from equality to "at least" (LT)','a fee entry whose recipient is the orbiter module account itself (the fee self-send leaves the balance above the amount to forward), then any succeeding forwarding','entrypoint/, go test -run TestOnRecvPacket_Funds ./entrypoint/'),
 'C01b': ('C01','keeper/component/forwarder/forwarder.go + keeper/component/adapter/adapter.go','balance precondition moved from the forwarder into the adapter AfterTransferHook (runs before the actions)','fee recipient = orbiter module account (lower or upper case) with any working forwarding','entrypoint/, go test -run Test ./entrypoint/'),
 'C02a': ('C02','controller/forwarding/cctp.go','err shadowed in the no-destination-caller branch of executeForwarding (refactor that logs the nonce)','CCTP route WITHOUT destination caller AND the CCTP server refusing the burn (burn limit, unknown domain, zero recipient, paused)','entrypoint/, go test -run TestC02 ./entrypoint/'),
 'C02b': ('C02','controller/forwarding/cctp.go','err shadowed in the no-caller branch (single-exit refactor)','CCTP without destination caller + refused burn','entrypoint/, go test -run TestDemo ./entrypoint/'),
 'C03a': ('C03','controller/forwarding/cctp.go','err shadowed in the no-caller branch (observability refactor)','CCTP without caller + failing DepositForBurn (natural refusal or injected fault)','entrypoint/, go test -run TestC03Demo ./entrypoint/'),
 'C03b': ('C03','keeper/component/forwarder/forwarder.go','validateInitialConditions inlined; mismatch reported with errorsmod.Wrapf(nil, …) which is nil','a surplus on the module account when forwarding starts: fee to the orbiter account itself, or the wrapped ICS-20 app crediting a different amount','entrypoint/, go test -run TestSeedC03b ./entrypoint/'),
 'C04a': ('C04','controller/action/fee.go','fees to the same recipient merged through a pointer into a slice that is re-allocated by a later append','fee list naming one recipient twice with a different non-zero-fee recipient appended in between ([R1,R2,R1], [R1,R2,R3,R2]); [R1,R1] is fine','controller/action/, go test -run TestFeeRepeatedRecipient ./controller/action/'),
 'C05a': ('C05','controller/forwarding/cctp.go','destination caller treated as absent when it is not a non-zero 32-byte value','CCTP payload whose destination_caller is present but 1/20/33 bytes or 32 zero bytes: request goes out WITHOUT caller and succeeds','controller/forwarding/, go test -run TestDemoC05a ./controller/forwarding/'),
 'C06a': ('C06','types/core/orbiter.go','duplicate-id check rewritten with slices.Compact on the unsorted id list (only adjacent repeats refused)','>= 2 registered action controllers and >= 3 pre-actions with a NON-adjacent repeat ([fee,swap,fee])','keeper/, go test -run TestDemoPreActions ./keeper/'),
 'C07a': ('C07','types/component/adapter/packets.go','source channel validated with channeltypes.IsValidChannelID in NewIBCCrossChainPacket','any packet (not for the orbiter) whose SOURCE channel is ICS-24-valid but not of the form channel-N (channel-noble, chan.to_noble+01, channel-2^64)','entrypoint/, go test ./entrypoint/'),
 'C07b': ('C07','types/component/adapter/packets.go','source channel validated with core.ValidateCounterpartyID(…, PROTOCOL_IBC)','source channel not channel-N or longer than 32 characters','entrypoint/, go test ./entrypoint/'),
 'C08a': ('C08','keeper/component/forwarder/msg_server.go','ErrAlreadySet from Pause/Unpause of a batch treated as success (idempotent pause) while the loop still stops at the first error','batch with an already-(un)paused id FOLLOWED by a fresh one: message succeeds, later ids not applied','keeper/component/forwarder/, go test -run TestCrossChainsBatch ./keeper/component/forwarder/'),
 'C08b': ('C08','keeper/component/forwarder/msg_server.go','isNoOp(err) makes the four pause/unpause handlers succeed on ErrAlreadySet','redundant id in non-last position of a batch','keeper/component/forwarder/, go test -run TestCrossChainsBatch ./keeper/component/forwarder/'),
 'C09a': ('C09','keeper/component/dispatcher/dispatcher.go','dispatchActions refactored into a helper; error check ended up after the loop (only the LAST action error is returned)','>= 2 pre-actions with the paused (or otherwise failing) one NOT last','entrypoint/, go test ./entrypoint/'),
 'C10a': ('C10','keeper/keeper.go','RequireAuthority compares with strings.EqualFold','signer = a malformed case-fold variant of the authority (mixed case, upper-case data part, U+212A KELVIN SIGN for k)','keeper/, go test -run TestMalformedSpellingOfAuthorityIsUnauthorized ./keeper/'),
 'C11a': ('C11','keeper/component/adapter/adapter.go','early return in commonBeforeTransferHook: the dust sweep is skipped when a passthrough payload is present','param max_passthrough_payload_size raised above 0 AND non-empty passthrough within the limit AND a stray balance of the transferred denom','entrypoint/, go test -run TestC11 ./entrypoint/'),
 'C11b': ('C11','keeper/component/adapter/adapter.go','same early-return shape (independent agent)','same three conditions','entrypoint/, go test ./entrypoint/'),
 'C12a': ('C12','keeper/component/dispatcher/stats.go','"first dispatch" shortcut: entry overwritten when the stored incoming is zero','history: a denomination-changing transfer creates the destination-denom entry (incoming 0), then another transfer touches that entry','keeper/component/dispatcher/, go test -run TestDemoC12a ./keeper/component/dispatcher/'),
 'C12b': ('C12','keeper/component/dispatcher/stats.go','outgoing total computed from the stored INCOMING (copy/paste while reusing SafeAdd results)','history: an entry that is already unbalanced (a fee transfer) hit by another transfer on the same route and denom','keeper/, go test -run TestDispatchStatsHistory ./keeper/'),
 'C13a': ('C13','keeper/component/dispatcher/state.go','by-destination counts listing paginates the primary map with CollectionFilteredPaginate (offset applied before the filter, inflated total)','by-destination counts listing with offset > 0 on a ledger where an entry of another destination protocol sorts inside the skipped range','keeper/component/dispatcher/, go test -run TestC13aDemo ./keeper/component/dispatcher/'),
 'C13b': ('C13','keeper/component/dispatcher/state.go','same shape (independent agent)','same','keeper/component/dispatcher/, go test -run TestDispatchedCountsByDestination_OffsetPagination ./keeper/component/dispatcher/'),
 'C14a': ('C14','controller/action/fee.go + types/controller/action/fee.go','per-recipient merge with Coins.Add before the SafeAdd guard','fee action naming the SAME recipient twice with amounts whose sum exceeds 2^256-1 (two fixed fees of 2^255)','entrypoint/, go test -run TestOnRecvPacket_FeeRecipients ./entrypoint/'),
 'C15a': ('C15','types/core/id.go','ActionID.Validate routed through a generic helper called with ProtocolID_name','pre-action with the undefined NUMERIC id 3 or 4','controller/adapter/, go test -run TestC15a ./controller/adapter/'),
 'C16a': ('C16','controller/adapter/ibc.go','packet amount parsed in base 10 instead of with the ICS-20 integer parser','amount spelled with a leading zero ("0100": ICS-20 credits 64) AND a compensating fixed fee of the surplus to the orbiter account so that the transfer is accepted','controller/adapter/, go test ./controller/adapter/'),
 'C17a': ('C17','types/core/id.go','ParseCrossChainID splits on every ":" and wants exactly two parts','genesis with a dispatched-amount entry whose INTERNAL destination counterparty contains ":"','keeper/, go test ./keeper/'),
 'C17b': ('C17','keeper/component/forwarder/state.go','GetAllPausedCrossChainIDs re-implemented with CollectionPaginate(nil page) — default limit 100','more than 100 paused cross-chain ids at export (needs >= 2 pause messages)','keeper/, go test -run TestGenesisRoundTrip ./keeper/'),
 'C18a': ('C18','keeper/component/adapter/adapter.go + state.go','decoded params cached in a keeper field, refreshed by SetParams','an UpdateParams executed on a state branch that is then DISCARDED (failed later message, simulation): store rolls back, cache does not','keeper/, go test ./keeper/'),
 'C19a': ('C19','keeper/component/forwarder/forwarder.go','"amount mismatch" error formats the TransferAttributes with %v (pointer values of math.Int internals)','the balance-mismatch refusal (fee recipient = orbiter account)','entrypoint/, go test -run TestReplay ./entrypoint/'),
 'C19b': ('C19','types/core/orbiter.go','duplicate pre-action check counts ids in a map and ranges over it to name the repeated one','>= 4 pre-actions repeating two distinct ids ([FEE,SWAP,SWAP,FEE]); shows on ~1 replay in 8','entrypoint/, go test ./entrypoint/'),
 'C20a': ('C20','types/core/id.go','isInteger parses with base 0','CCTP/Hyperlane counterparty with underscores between digits ("1_0")','keeper/component/forwarder/, go test -run TestC20a ./keeper/component/forwarder/'),
}
for sid,(prop,files,what,needs,demo) in T.items():
    d=os.path.join(ROOT,sid)
    if not os.path.isdir(d): continue
    caught=[];errs=[]
    mf=os.path.join(d,'matrix.txt')
    if os.path.exists(mf):
        for l in open(mf):
            p=l.split()
            if len(p)>=2 and p[1]=='1': caught.append(p[0]+(' ('+' '.join(p[2:])+')' if len(p)>2 else ''))
            if len(p)>=2 and p[1] not in ('0','1'): errs.append(p[0])
    base=open(os.path.join(d,'BASE')).read().strip() if os.path.exists(os.path.join(d,'BASE')) else ''
    meta={'seed':sid,'breaks_property':prop,'author':'independent sub-agent given only the property text and a scratch worktree',
          'files_changed':files,'change':what,'needs_in_order_to_manifest':needs,
          'patch':'patch.rebased.diff (same change re-applied after a later fix: commit touched the same hunk)' if os.path.exists(os.path.join(d,'patch.rebased.diff')) else 'patch.diff',
          'patch_base_commit':base,'demonstration':'demo/*.go.txt — place under '+demo,
          'confirmed_by_me':'tools/confirm_seed.sh in a fresh scratch worktree of the base commit: demo passes without the patch; with the patch the repository builds, simapp builds, the existing suite passes and the demo fails (confirm.log)',
          'quick_checks_reporting_a_violation':caught,'quick_checks_exiting_with_harness_error':errs,
          'how_run':'tools/seed_matrix.sh: scratch worktree of /repo HEAD + patch, every quick check with REPO_DIR pointing at it (matrix.txt)'}
    json.dump(meta,open(os.path.join(d,'meta.json'),'w'),indent=1)
print('ok')
