#!/usr/bin/env bash
# tools/process_seed.sh <seed-id> [props...] — confirm an independently written seed (/tmp/seed/<id>/out) in a fresh worktree,
# store it under /verif/seeded/<id>/, then run the given quick checks (default: all but C19) against the patched tree.
set -u
ID="$1"; shift
OUT=/tmp/seed/$ID/out
read -r DEMODIR PKG RUN < <(python3 - "$OUT" <<'PY'
import re,sys,glob,os
out=sys.argv[1]
place=None; run=None; pkg=None
for f in sorted(glob.glob(out+'/demo/*.go')):
    head=open(f).read()[:3000]
    m=re.search(r'([\w./-]+/)?'+re.escape(os.path.basename(f)), head)
    if m and m.group(1): place=m.group(1).rstrip('/')
    for line in head.splitlines():
        if 'go test' in line and '-run' in line:
            m=re.search(r"-run[ =]+'?\"?([^'\"\s]+)", line)
            pk=[t for t in line.split() if t.startswith('./')]
            if m and pk: run,pkg=m.group(1),pk[-1]; break
    if place and run: break
print(place or '?', pkg or '?', run or '?')
PY
)
echo "seed $ID: demo dir=$DEMODIR pkg=$PKG run=$RUN"
if [ "$DEMODIR" = "?" ] || [ "$RUN" = "?" ]; then echo "CANNOT PARSE demo header"; exit 3; fi
# simapp is its own module: run go test from inside it
/verif/tools/confirm_seed.sh "$OUT" "$ID" "$DEMODIR" "$PKG" "$RUN" 2>&1 | tail -12
[ -f /verif/seeded/$ID/confirm.log ] || exit 1
PROPS="$*"; [ -z "$PROPS" ] && PROPS="C01 C02 C03 C04 C05 C06 C07 C08 C09 C10 C11 C12 C13 C14 C15 C16 C17 C18 C20"
MATRIX_PROPS="$PROPS" /verif/tools/seed_matrix.sh "$ID"
