#!/usr/bin/env bash
# tools/try_wt.sh <patch.diff> <prop> [tier] [prop2 ...] — like try_patch.sh, but in a scratch worktree of /repo HEAD
# (REPO_DIR override), so that /repo itself is never touched (background runs started with `vp run` use /repo).
# Evidence and replays go to a throw-away copy of the working tree of /verif.
set -u
PATCH="$(readlink -f "$1")"; shift
TIER=quick
WORK=$(mktemp -d /tmp/trywt.XXXXXX); WT=$WORK/wt
trap 'git -C /repo worktree remove --force $WT >/dev/null 2>&1; rm -rf $WORK' EXIT
git -C /repo worktree add --detach $WT HEAD >/dev/null 2>&1 || { echo "worktree failed"; exit 9; }
git -C $WT apply "$PATCH" 2>/dev/null || git -C $WT apply -3 "$PATCH" >/dev/null 2>&1 || { echo "PATCH DOES NOT APPLY"; exit 8; }
mkdir -p $WORK/verif; rsync -a --exclude .git --exclude replays --exclude seeded --exclude benign --exclude hunts /verif/ $WORK/verif/; mkdir -p $WORK/verif/replays
for P in "$@"; do
  case "$P" in quick|thorough) TIER=$P; continue;; esac
  echo "=== $P $TIER with $(basename $(dirname $PATCH))/$(basename $PATCH)"
  (cd $WORK/verif && REPO_DIR=$WT bin/check "$P" "$TIER" 2>&1 | tail -${TAILN:-8} | cut -c1-${CUTN:-600}; echo "exit=${PIPESTATUS[0]}")
done
