#!/usr/bin/env bash
# tools/benign_thorough.sh — THOROUGH tier of the checks nearest to each behaviour-preserving change (benign/<id>/patch.diff).
set -u
declare -A NEAR=(
 [B1]="C03 C08 C09 C14 C19" [B2]="C08 C10 C17" [B3]="C04 C02 C06 C01" [B4]="C07 C14 C16 C18"
 [B5]="C12 C13 C17" [B6]="C17 C20 C14" [B7]="C05 C03 C14" [B8]="C04 C08 C09 C10"
 [B9]="C15 C14" [B10]="C19 C07 C03" [B11]="C13 C08 C17 C12 C03" [B12]="C11 C01 C02 C03 C16"
 [B13]="C18 C17 C10" [B14]="C07 C14" [B15]="C10 C08 C09 C05 C18" [B16]="C20 C15 C05 C04 C14" [B17]="C19 C03 C14 C08 C09 C18" [B18]="C17 C12 C13" [B19]="C13 C08 C09" [B20]="C14 C15 C05 C06 C03" [B22]="C12 C06 C03 C01 C02 C11"
 [B23]="C03 C14 C17 C08 C09" [B24]="C17 C20 C12" [B25]="C07 C03 C14" [B27]="C04 C18 C09 C08 C03 C06" [B28]="C13 C08 C09 C17" [B29]="C05 C03 C14" [B30]="C12 C13 C17 C03"
)
IDS=("$@"); [ ${#IDS[@]} -eq 0 ] && IDS=($(ls /verif/benign | sort -V))
WORK=/tmp/bmatrixT; rm -rf $WORK; mkdir -p $WORK
mkdir -p $WORK/verif && git -C /verif archive HEAD | tar -x -C $WORK/verif; mkdir -p $WORK/verif/evidence $WORK/verif/replays
source /verif/bin/env.sh
for S in "${IDS[@]}"; do
  D=/verif/benign/$S; WT=$WORK/wt-$S
  git -C /repo worktree prune; git -C /repo worktree add --detach $WT HEAD >/dev/null 2>&1 || { echo "$S worktree failed"; continue; }
  if ! git -C $WT apply $( [ -f $D/patch.rebased.diff ] && echo $D/patch.rebased.diff || echo $D/patch.diff ) 2>/dev/null; then echo "$S PATCH DOES NOT APPLY" | tee $D/matrix_thorough.txt; git -C /repo worktree remove --force $WT; continue; fi
  : > $D/matrix_thorough.txt
  for PR in ${NEAR[$S]}; do
    OUT=$(cd $WORK/verif && REPO_DIR=$WT bin/check $PR thorough 2>&1); RC=$?
    CLS=$(echo "$OUT" | grep -E "^VIOLATION|^HARNESS-ERROR" | sed -E 's/.*kind=([^ ]+) .*/\1/; s/^HARNESS-ERROR.*/HARNESS-ERROR/' | sort | uniq -c | sort -rn | head -3 | awk '{printf "%s×%s ", $1, $2}')
    echo "$PR $RC $CLS" >> $D/matrix_thorough.txt
    if [ $RC -ne 0 ]; then mkdir -p $D/alarms; echo "$OUT" | tail -12 | cut -c1-900 > $D/alarms/$PR.thorough.txt; fi
  done
  echo "$S thorough: alarms: $(awk '$2!=0{printf "%s(%s) ", $1, $2}' $D/matrix_thorough.txt)"
  git -C /repo worktree remove --force $WT >/dev/null 2>&1; rm -rf $WT
done
rm -rf $WORK
