#!/usr/bin/env bash
# tools/mkseed.sh <id> [suffix] — scratch worktree + property text for an independent sub-agent (nothing from /verif except the property text)
set -eu
ID="$1"; SFX="${2:-a}"
D=/tmp/seed/$ID$SFX
rm -rf "$D"; mkdir -p "$D/out"
git -C /repo worktree add --detach "$D/wt" HEAD >/dev/null 2>&1
python3 - "$ID" > "$D/PROPERTY.txt" <<'PY'
import json,sys
for l in open('/verif/properties.jsonl'):
    p=json.loads(l)
    if p['id']==sys.argv[1]:
        print("Property %s — %s\n\n%s\n\nQuantified over: %s" % (p['id'],p['title'],p['statement'],p['quantifier']['text']))
PY
git -C /repo rev-parse HEAD > "$D/BASE"
echo "$D"
