#!/usr/bin/env python3
"""Regenerates /verif/MANIFEST.json from the table below (one entry per property claimed)."""
import json, os, sys
HERE = os.path.dirname(os.path.abspath(__file__))
ROOT = os.path.dirname(HERE)

COMMON_NOTE = ("Trusted: Go 1.24 toolchain; Cosmos SDK v0.50.13 CacheContext; ibc-go v8.6.1, noble-cctp, fiattokenfactory, "
               "hyperlane-cosmos v1.0.1 executed (not modelled); the two emulated envelopes (IBC core discard-on-error, baseapp "
               "per-message rollback, DESIGN §1.3); the Go reference model of this check; SHA-256 state keys.")

CHECKS = {
 "C08": dict(level="model_checking", design="§3 C08",
   technique="explicit-state BFS to fixpoint over the real SimApp (pause/unpause alphabet) with a lock-step pause-set reference model; probes and queries in every reachable state",
   text="All states reachable by the pause/unpause message alphabet (quick 64, thorough 2048 distinct full-store states; fixpoint reached) are enumerated on the real application; in every state every admin message is applied and compared with a reference model (outcome, atomicity, no foreign writes), all pause queries are compared with the model, and probe transfers to every destination must be executed iff neither protocol nor pair is paused."),
 "C01": dict(level="model_checking", design="§3 C01",
   technique="explicit-state BFS over bounded operation histories of the real SimApp; every reached state receives the whole probe-packet alphabet; balance invariant checked on every transition",
   text="Every history of <=2 (quick) / <=3 (thorough) operations over a 14-operation prefix alphabet (transfers on every route, direct deposits, pauses, parameter change, token-factory pause, plain ICS-20 traffic) is executed on the real application, states de-duplicated by exact full-store hash, and every distinct state receives ~3100 probe packets (13 receiver spellings x 48 memos x amounts/denoms/channels). Invariant on every transition: a success acknowledgement never leaves the orbiter account with a larger balance in any denomination; an orbiter-addressed packet is either acknowledged or refused (no panic)."),
 "C02": dict(level="model_checking", design="§3 C02",
   technique="same exhaustive exploration as C01 with a whole-ledger monitor: all bank balances and total supply snapshotted before/after every successful orbiter transfer and compared with the delta computed by a math/big reference",
   text="On every successful orbiter-addressed transfer among all transitions of the C01 exploration (plus an amount menu up to 2^256-1 and the IGP Hyperlane configuration) the complete bank ledger delta (every account found by iterating the bank store, and total supply) must equal the expected delta: escrow -A, each fee recipient +f_i, sink +out / burn, stray balance to the dust collector, nothing else; out > 0."),
 "C12": dict(level="model_checking", design="§3 C12",
   technique="explicit-state BFS over all operation sequences up to depth 3/4 of a 20-operation alphabet on the real SimApp with a statistics-ledger reference model stepped in lock-step; export and direct-lookup queries compared after every transition",
   text="All sequences of <=3 (quick) / <=4 (thorough) operations over successful transfers on every (source channel, destination, denom, fee) shape, refused transfers, plain ICS-20 traffic, admin messages, direct deposits and a genesis-style import of near-maximal totals are executed; after every transition the exported dispatcher genesis equals the fold of the successful transfers exactly (no extra/missing keys, counts), every direct lookup agrees, non-transfer transitions leave the dispatcher store bytes unchanged, and the model's in/out are cross-checked against the observed bank ledger delta."),
 "C11": dict(level="model_checking", design="§3 C11",
   technique="paired (metamorphic) runs on two branches of every state of an explicit-state BFS: the same transfer with and without direct deposits on the orbiter account, all observations compared",
   text="For every distinct state reachable by <=2 operations of the C01 prefix alphabet, every deposit set (same denom 1/A/A+1, other denom, IGP denom, all three) and every transfer of a 100+ transfer menu (all routes incl. passthrough payloads and the IGP Hyperlane configuration x fee shapes x amounts) the transfer is executed on the state and on the state+deposits: acknowledgement bytes, every third-party balance delta, supply delta and statistics must be equal; the stray balance in the transferred denom must end on the dust collector and all other denominations must stay on the orbiter account."),
 "C03": dict(level="fault_enumeration", design="§3 C03",
   technique="exhaustive fault-plan enumeration (all 1-fault and all 2-fault plans over every fallible dependency call reached, 4 fault modes for the wrapped ICS-20 app) on an instrumented replica of the orbiter keeper over the real stores, plus natural failures from every state of an explicit-state prefix exploration on the real app",
   text="For each payload shape (4 routes x fee lists x stray balance) the fault-free run lists the fallible call sites reached (store reads/writes per collection, bank sends, sweep, wrapped ICS-20 app, bridge servers, token query, event emission); every single fault and every pair is executed to completion: a success acknowledgement requires the bank ledger to equal the fault-free post-state and is tolerated only after statistics / params-read faults; otherwise the ack must be an error and the state untouched. Natural failures (blacklist, paused token factory, burn limit, paused CCTP, missing router/messenger/token, blocked recipient, orbiter pauses) are driven on the full app from every env-toggle state."),
 "C05": dict(level="exploration", design="§3 C05",
   technique="bounded-exhaustive enumeration of attribute menus and of the (identifier x attribute type) matrices on an instrumented replica that records the request objects reaching the bridge servers, cross-checked with the full app's typed events; real attestation for ReplaceDepositForBurn",
   text="Cross product of CCTP (domain x mint recipient x caller lengths/values), Hyperlane (token x domain x recipient x hook x gas x max fee x metadata; quick varies 1-2 dimensions at a time, thorough the full product) and internal recipient menus, each with/without a fee: a success requires exactly one request on the server named by the protocol id with every field equal to the independently decoded payload, the post-fee amount and the orbiter account as sender; every off-diagonal (protocol id, attribute type) / (action id, attribute type) cell must be refused without reaching a bridge; ReplaceDepositForBurn is checked field-for-field with valid and invalid attestations."),
 "C06": dict(level="exploration", design="§3 C06",
   technique="bounded-exhaustive enumeration of all action lists up to length 3 x routes x amounts on an instrumented replica with a denomination-changing test controller registered under ACTION_SWAP, against a reference interpreter",
   text="All 40 action lists of length 0..3 over {FEE(bps), FEE(fixed), SWAP} x {internal, cctp, hyp} x 4 amounts are executed with and without the SWAP controller registered (thorough: from 6 prior states): lists repeating an identifier or naming an action without controller must be refused; otherwise each action must see its predecessor's coin (recorded), the single route request and the ledger sink must carry exactly the final coin, and statistics must show one or two entries."),
 "C09": dict(level="model_checking", design="§3 C09",
   technique="explicit-state BFS to fixpoint over pause/unpause-action messages (thorough: crossed with the C08 pause universe) with a lock-step reference model; 13 probe payloads and both queries in every state; differential comparison with the unpaused state",
   text="All states reachable by Pause/UnpauseAction for every identifier (valid, unsupported, unknown, numeric, empty; authority and non-authority signers) are enumerated to fixpoint (quick 4, thorough 256 states with the C08 quick universe); in every state payloads with/without each action in both orders, on the deployed controller set and with a second controller registered under ACTION_SWAP, must be executed iff none of their actions is paused; payloads without a paused action must give byte-identical acks and ledger deltas as in the unpaused state; queries equal the model."),
 "C10": dict(level="exploration", design="§3 C10",
   technique="bounded-exhaustive enumeration of the Msg RPC surface discovered at run time from the registered protobuf service descriptors x signer strings x reflection-generated bodies x states, through the application's Msg service router",
   text="Every Msg RPC of every service under noble.orbiter* found in the merged descriptor registry (8 today; a new one is picked up automatically, one without route or signer option is reported) x ~19 non-authority signer strings (other accounts, module accounts, malformed/mixed-case/Unicode-fold/other-HRP/bech32m/space-padded spellings of the authority, empty) x (valid body, zero body, all combinations of per-field value menus) x 4 states must fail and leave the full-store hash unchanged; the authority with the valid body must succeed."),
 "C18": dict(level="model_checking", design="§3 C18",
   technique="explicit-state BFS to fixpoint over parameter updates and genesis (re)initialisation with a last-value-set reference model; passthrough-length probes on 3 routes in every state on an instrumented replica that records call order",
   text="All parameter states reachable by UpdateParams (authority / non-authority), InitGenesis(params=v) and export->init round trips over the value menu {0,1,2,64,2^32-1} (thorough adds 63,65,8192,30000 and pauses) are enumerated to fixpoint, plus the 'params never set' store; in every state passthrough lengths {0,1,2,3,63,64,65,8192,20000,30000} x {cctp,hyp,internal} must be refused for size iff longer than the limit in force, before the wrapped ICS-20 app is called, and must succeed otherwise (below ICS-20's own memo cap); the Params query equals the model."),
 "C04": dict(level="exploration", design="§3 C04",
   technique="bounded-exhaustive enumeration of amounts x fee lists through the repository's FeeController.HandlePacket (recording bank) and through the full application, against a math/big reference",
   text="Pure level: every amount 1..2000 (thorough 1..20000) plus 2^k and overflow boundaries x all 931 fee lists of length <=2 over a 30-shape menu (bps 0..2^32-1, fixed amounts incl. signs/hex/underscore/empty/2^256, relative A-1/A/A+1, recipient spellings) and boundary amounts x all lists of length <=4 (thorough <=6: 55987 lists) over a 6-shape sub-menu (repeated recipients, mixtures): refusal exactly on the property's list with nothing paid and the amount untouched, otherwise per-recipient credits and the forwarded amount equal floor arithmetic on the incoming amount. Stack level: the same lists (and the 5/6-entry boundary, amounts up to 2^256-1) through the full app on the internal route with whole-ledger comparison."),
 "C07": dict(level="model_checking", design="§3 C07",
   technique="differential (paired) execution on two branches of every state of an explicit-state BFS: the application's transfer stack versus a reference stack without the orbiter middleware; acks, masked events and full-store hashes compared; reflection-driven pass-through check of all other callbacks",
   text="From every state reachable by <=2 operations over orbiter pauses, parameter change, deposits, a transfer and token-factory toggles, ~690 (thorough ~2000) packets not addressed to the orbiter (receivers x memos incl. valid orbiter payloads x coins incl. mint path and malformed amounts; ICS-24-valid channel/port identifiers incl. non channel-N source channels; senders; all raw byte strings up to length 2/3 over 11 symbols; structurally damaged ICS-20 JSON incl. receiver=orbiter) must produce byte-identical acks, identical events (third-party noise calibrated by running the reference twice) and identical stores with and without the middleware; every IBCModule/ICS4Wrapper method except OnRecvPacket (enumerated by reflection) must reach the inner implementation with the same arguments and return its results; ack/timeout refund paths are compared on the full app."),
 "C20": dict(level="exploration", design="§3 C20",
   technique="exhaustive enumeration of all strings up to length 4 over a 10-symbol alphabet (plus targeted strings) x protocol ids against a canonical-uint32 reference; thorough enumerates all 2^32 domains; dynamic pause-then-probe on the full application",
   text="For all 11111 strings of length <=4 over {0,1,9,+,-,space,:,a,.,_} plus ~60 targeted strings and protocol ids -1..5: accepted pairs round-trip through ID/ParseCrossChainID, no two accepted pairs share a textual form, CCTP/Hyperlane accept exactly the canonical decimal uint32 strings, constructor/validation/pause message/query/genesis validation accept the same set, the attribute types produce exactly the canonical string (2000+boundary domains; thorough all 2^32), and every accepted CCTP/Hyperlane string that names a routable domain, once paused through the real message, makes the transfer to that domain refused."),
 "C14": dict(level="exploration", design="§3 C14",
   technique="bounded-exhaustive input enumeration with a JSON tree mutator (all single-point mutations; thorough: all pairs) and packet-field menus, delivered to the real transfer stack under recover() from 4 states",
   text="14 seed payloads (every forwarding type x fee shapes, all optional fields) x all ~11000 single-point structural mutations (null/absent/wrong type at every position, null list elements, duplicate and renamed members, unknown siblings, type-URL and enum swaps, byte lengths, integer spellings, out-of-range numbers; thorough: all pairs on W0) plus packet-level menus (denom x amount, receiver x sender encodings, channel identifiers, degenerate and huge memos, all byte strings up to length 2 over 12 symbols), each on W0 and three non-initial states (statistics totals next to 2^256, pauses, deposits+history): no panic, never a nil acknowledgement, and a success acknowledgement only for payloads that are well-formed by the descriptor-driven reference predicate."),
 "C15": dict(level="exploration", design="§3 C15",
   technique="bounded-exhaustive enumeration of the public-constructor space (round trip) and of all single-point JSON mutations of a covering subset of serialisations against a descriptor-driven well-formedness predicate; purity by A,B,A parse sequences and fresh parser instances",
   text="~1300 (thorough ~20000) payloads built through NewCCTPForwarding/NewHyperlaneForwarding/NewInternalForwarding x NewFeeAction lists x 6 passthrough byte strings: Parse(Marshal(p)) equals p in deterministic protobuf encoding and validates. ~29000 single-point mutations (extra/duplicated/renamed members, unknown fields at every level, type-URL and enum swaps, null/absent/wrong types): whenever the module's parser accepts the memo it must be well-formed by the reference predicate evaluated on the generic JSON tree and the protobuf descriptors (single root member, one forwarding with supported id and registered forwarding attribute type, distinct supported action ids with registered action types, no unknown field); duplicated members must be read last-wins by both decoders; re-parsing after other memos and on a fresh parser gives the same payload and touches no state."),
 "C17": dict(level="model_checking", design="§3 C17",
   technique="export/import differential on every state of an explicit-state BFS (byte-equal orbiter stores and identical probe behaviour on the re-initialised branch) plus bounded-exhaustive enumeration of a genesis document grammar and of all single-point JSON mutations of an exported genesis (validate => initialise => round-trips)",
   text="Every distinct state reachable by <=2 (thorough <=3) operations over pauses of protocols/cross-chains/actions, parameter changes, successful and refused transfers on all routes, imported near-maximal statistics and deposits is exported through the module's JSON entry point, validated, re-initialised on an emptied store and re-exported: export validates, InitGenesis does not panic, re-export is byte-equal, the orbiter store is byte-identical and 9 probe transfers give identical acks and final exports. ~3700 grammar documents (all lists of length <=3 of paused ids incl. repeats/invalid, <=2 of cross-chain ids incl. boundary and separator/NUL counterparties, amount x count entry lists incl. same key twice, zero/negative/max values, nil ids) and ~700 JSON mutations: validation accepts => InitGenesis succeeds and the resulting state round-trips."),
 "C13": dict(level="model_checking", design="§3 C13",
   technique="explicit-state BFS over statistics ledgers built through the real UpdateStats path (and real transfers); in every ledger the whole request space of the 6 dispatcher RPCs is enumerated through the app's gRPC query router and compared with the exported genesis",
   text="Ledgers: every state reachable by <=2 (thorough <=3) updates over a 15-update menu with sources of all four protocols, prefix-related destination counterparties (1/10/100), two denoms and an update of an existing entry, plus growing prefixes of the whole menu and ledgers reached by real transfers. Requests per ledger: direct lookups for every key and 5 near-miss keys each; 4 listing RPCs x 7 protocol filters x {default page, offset pages for every offset 0..n+1 and limits 1,2,n+1, next-key walks with limits 1,2,3} x {forward, reverse} with count_total: listings must be exactly the matching set, duplicate-free, walks must visit each entry exactly once in opposite orders, totals correct."),
 "C16": dict(level="exploration", design="§3 C16",
   technique="bounded-exhaustive enumeration of denomination strings (all concatenations of up to 3/4 segments) x source port/channel pairs x amount spellings on the full application, differential against the coin ICS-20 itself credits for the identical packet to an ordinary account on a sibling branch; seam differential with witness search",
   text="All '/'-joined concatenations of up to 3 (thorough 4: 22620) segments from a 12-segment menu x 4 (source port, channel) pairs x 2 destination channels x amount spellings (decimal, hex, octal-looking, underscore, signed, exponent, spaces, non-ASCII digits, 2^256) addressed to the orbiter with a valid payload: a success acknowledgement requires the token to be a one-hop voucher of the packet's source port/channel (rule written from the ICS-20 spec, independent of RecoverNativeDenom) and the forwarded coin and the statistics entry to equal the coin ICS-20 credits (observed on a sibling branch); where the adapter's coin and the credited coin disagree the check searches for an accepted witness by compensation."),
 "C19": dict(level="model_checking", design="§3 C19",
   technique="replay of an exhaustively enumerated history list on independent application instances in this process and in separate OS processes (the check re-executes its own binary); per-transition digests of ack bytes, ordered events and full-store hash plus final exports compared; differing histories are re-run 400x to classify the cause",
   text="~22600 histories (all sequences up to depth 2 (thorough 3) over the 20-operation C12 alphabet and depth 2 over the C08 alphabet, every C14 mutated memo and packet-level input, the C01 probe packets on two states) are each replayed on 3 (thorough 8) independent instances, one (thorough four) of them in other OS processes with their own map-iteration seeds; every transition's acknowledgement bytes, ordered event list and full-store hash and the final orbiter and bank exports must be identical. Third-party event noise is calibrated on the orbiter-free stack and masked; acks and stores never are."),
}

NOT_YET = {}

def main():
    props = [json.loads(l) for l in open(os.path.join(ROOT, "properties.jsonl"))]
    checks = []
    na = []
    for p in props:
        pid = p["id"]
        if pid in CHECKS:
            c = CHECKS[pid]
            checks.append({
                "property_id": pid,
                "quick_cmd": "bin/check %s quick" % pid,
                "thorough_cmd": "bin/check %s thorough" % pid,
                "evidence_file": "/verif/evidence/%s.json" % pid,
                "replay_cmd_template": "bin/check --replay {path}",
                "engine": c.get("engine", "orbiter-explorer"),
                "level_claimed": {"category": c["level"], "text": c["text"], "design_ref": c["design"]},
                "level_note": c.get("note", COMMON_NOTE),
                "technique": c["technique"],
            })
        else:
            na.append({"property_id": pid, "reason": NOT_YET.get(pid, "check not built yet in this revision of /verif (planned: DESIGN.md §3); model checking applies, nothing is claimed until the check exists")})
    m = {
        "version": 1,
        "setup_cmd": "bin/setup",
        "hooks": {
            "guard": "verif",
            "enable": "no hooks in /repo: the harness (/verif/harness/*.go) is compiled into package simapp with `go test -c -tags verif -overlay`; /repo is never edited by a check",
            "baseline_off_cmd": "cd /repo && for m in . ./simapp; do (cd $m && GOFLAGS= GOPROXY=off GOTOOLCHAIN=local PATH=/root/go/pkg/mod/golang.org/toolchain@v0.0.1-go1.24.0.linux-amd64/bin:$PATH go test -json -vet=off -count=1 -timeout 25m ./...); done",
            "source_commits": [],
            "add_only": True,
        },
        "engines": [
            {"name": "orbiter-explorer", "path": "harness/", "serves_properties": sorted(CHECKS.keys()),
             "kind_free_text": "hand-written explicit-state / bounded-exhaustive explorer (Go) driving the real, fully wired SimApp in process: level-synchronised BFS over operation paths with exact full-store state hashing (E1), bounded-exhaustive input enumerators (E2), fault-plan enumerator over decorated dependencies (E3), paired differential runs (E4); reference models in Go stepped in lock-step"},
        ],
        "checks": checks,
        "not_applicable": na,
        "notes": "See DESIGN.md. Exit codes: 0 held, 1 VIOLATION, 2 HARNESS-ERROR (vacuity guard / fixture / build failure; never a verdict).",
    }
    json.dump(m, open(os.path.join(ROOT, "MANIFEST.json"), "w"), indent=1)
    print("wrote MANIFEST.json with", len(checks), "checks;", len(na), "not claimed")

if __name__ == "__main__":
    main()
