package simapp

// C16 — only returning Noble-native tokens are processed, under the coin ICS-20 credits.
// E2 + E4 on the full application: all denomination strings of up to 3 (thorough 4) segments × source
// port/channel pairs × amount spellings × destination channels. Oracles: accept ⇒ one-hop-voucher rule
// (denomRef, written from the ICS-20 spec); same coin = the coin ICS-20 credits for the identical packet
// addressed to an ordinary account on a sibling branch; and a seam differential (AdaptPacket's coin vs the
// credited coin) that, on disagreement, searches for an accepting witness by compensation.

import (
	"fmt"
	"math/big"
	"strconv"
	"strings"

	"cosmossdk.io/math"
	sdk "github.com/cosmos/cosmos-sdk/types"

	adaptertypes "github.com/noble-assets/orbiter/v2/types/component/adapter"
	"github.com/noble-assets/orbiter/v2/types/core"
)

// denomRef: denom is a one-hop voucher whose prefix is srcPort/srcChannel and whose remainder carries no
// further port/channel-N hop.
func denomRef(denom, srcPort, srcChan string) (base string, ok bool) {
	pre := srcPort + "/" + srcChan + "/"
	if !strings.HasPrefix(denom, pre) {
		return "", false
	}
	r := denom[len(pre):]
	if r == "" {
		return "", false
	}
	parts := strings.Split(r, "/")
	if len(parts) > 2 && isChannelID(parts[1]) {
		return "", false // another hop: the token is not native to Noble
	}
	if strings.HasPrefix(r, "ibc/") {
		return "", false // the hashed name of a voucher Noble holds: a longer trace behind a hash, not a native token
	}
	return r, true
}

// denomHashedVoucher: the on-chain name of a voucher (transfer/channel-1/uatom) — segments "ibc" + hash of the menu.
const denomHashedVoucher = "ibc/27394FB092D2ECCD56123C74F36E4C1F926001CEADA9CA97EA622B25F41E5EB2"

func isChannelID(s string) bool {
	if !strings.HasPrefix(s, "channel-") {
		return false
	}
	d := s[len("channel-"):]
	if d == "" {
		return false
	}
	if _, err := strconv.ParseUint(d, 10, 64); err != nil {
		return false
	}
	return true
}

func c16Denoms(maxSeg int) []string {
	segs := []string{"transfer", "channel-7", "channel-0", "channel-9", "uusdc", "uother", "ibc", "27394FB092D2ECCD56123C74F36E4C1F926001CEADA9CA97EA622B25F41E5EB2", "x", "", "UUSDC", "a-b.c_d:e"}
	out := []string{}
	cur := []string{""}
	first := true
	for l := 1; l <= maxSeg; l++ {
		var next []string
		for _, p := range cur {
			for _, s := range segs {
				if first {
					next = append(next, s)
				} else {
					next = append(next, p+"/"+s)
				}
			}
		}
		first = false
		out = append(out, next...)
		cur = next
	}
	return out
}

func init() { register("C16", checkC16) }

func checkC16(tier string) *Report {
	rep := NewReport("C16", tier, "exploration")
	full := tier == "thorough"
	maxSeg := 3
	if full {
		maxSeg = 4
	}
	rep.Rule = fmt.Sprintf("all '/'-joined concatenations of up to %d segments from a 12-segment menu (ports, channels, native denoms incl. upper-case and punctuation, ibc, a hash, x, empty) × 4 (source port, source channel) pairs × amount spellings × 2 destination channels, receiver = orbiter account, memo = valid internal forwarding; plus one-hop vouchers of every escrowed denom × 14 amount spellings. Non-trivial = packets for which ICS-20 itself credits a coin", maxSeg)
	rep.Assumptions = []string{
		"'the coin ICS-20 credits' is observed, not predicted: the identical packet with receiver := an ordinary account is delivered on a sibling branch of the same state and that account's balance delta is taken",
		"a disagreement between the adapter's coin and the credited coin is reported only when a transfer is actually ACCEPTED with it; the check searches for such a witness by adding a compensating fixed fee to the orbiter account",
	}
	worlds, err := buildWorlds(numWorkers())
	if err != nil {
		rep.HarnessError("fixture: %v", err)
		return rep
	}
	w0 := worlds[0]
	type tc struct {
		denom, sp, sc, dc, amt string
	}
	var cases []tc
	pairs := [][2]string{{"transfer", "channel-7"}, {"transfer", "channel-9"}, {"transfer", "channel-0"}, {"other", "channel-7"}}
	amts := []string{"1000", "0x3e8", "01000"}
	if full {
		amts = []string{"1000", "0x3e8", "1_000", "+1000", "01000", "1e3", "-1", "0"}
	}
	for _, d := range c16Denoms(maxSeg) {
		for pi, p := range pairs {
			if !full && pi >= 2 && !strings.HasPrefix(d, p[0]+"/"+p[1]) {
				continue
			}
			for _, dc := range []string{"channel-0", "channel-1"} {
				// the natural counterparty of dc and the crossed one
				for ai, a := range amts {
					if !full && ai > 0 && !strings.HasPrefix(d, p[0]+"/"+p[1]+"/u") {
						continue
					}
					cases = append(cases, tc{d, p[0], p[1], dc, a})
				}
			}
		}
	}
	// every escrowed base × all amount spellings on the proper channel pair
	allAmts := []string{"1000", "0x3e8", "0X3E8", "1_000", "+1000", "01000", "0o1750", "0b1111101000", "1e3", "-1", "0", "00", " 1000", "1000 ", "1000.0", "٣", maxUint256Str, twoTo256}
	for _, base := range []string{denomUSDC, denomOTH, "UUSDC", "uusdcx", "a-b.c_d:e", denomBIG, denomHashedVoucher} {
		for _, a := range allAmts {
			cases = append(cases, tc{"transfer/channel-7/" + base, "transfer", "channel-7", "channel-0", a}, tc{"transfer/channel-9/" + base, "transfer", "channel-9", "channel-1", a})
		}
	}
	// source port / channel SHAPES: every identifier ICS-24 accepts can name the counterparty's end, not only channel-N —
	// crossed with a native base, the hashed voucher in the escrow, a two-hop trace and an amount spelling
	for _, sp := range []string{"transfer", "icahost", "wasm.abc", "TRANSFER", "transfer2"} {
		for _, sc := range []string{"channel-7", "channel-noble", "chan.to_noble+01", "CHANNEL-1", "channel-18446744073709551616", "ics20-chan-7", "channel-07", "channel.noble", "channel-7x", "07-tendermint-0"} {
			for _, base := range []string{denomUSDC, denomHashedVoucher, "transfer/channel-3/uatom", denomOTH, "ibc/" + strings.Repeat("0", 64), "ibc/x", "IBC/27394FB092D2ECCD56123C74F36E4C1F926001CEADA9CA97EA622B25F41E5EB2"} {
				for _, a := range []string{"1000", "0x3e8"} {
					cases = append(cases, tc{sp + "/" + sc + "/" + base, sp, sc, "channel-0", a})
				}
			}
		}
	}
	rep.Extra["cases"] = len(cases)
	memo := Memo(w0.FwdInternal(w0.Bob), nil)
	parallelFor(worlds, len(cases), func(w *World, i int) {
		c := cases[i]
		rep.Count("evaluations", 1)
		mk := func(rcv, m string) Pkt {
			return Pkt{SrcPort: c.sp, SrcChan: c.sc, DstPort: "transfer", DstChan: c.dc, Denom: c.denom, Amount: c.amt, Sender: defaultSender, Receiver: rcv, Memo: m}
		}
		sig := fmt.Sprintf("denom=%q src=%s/%s dst=%s amount=%q", c.denom, c.sp, c.sc, c.dc, c.amt)
		group := "amount=" + c.amt
		pOrb := mk(w.Orb.String(), memo)
		replay := mustJSON(map[string]any{"ops": []Op{{Label: sig, Pkt: &pOrb}}})
		// (i) what ICS-20 credits: same packet to carol, plain flow, sibling branch
		bc := Branch(w.Ctx)
		sc0 := w.Snapshot(bc)
		rc := w.Recv(bc, mk(w.Carol.String(), ""))
		var credited sdk.Coins
		if rc.Success {
			after := w.Snapshot(bc)
			for d, v := range after.Bal[w.Carol.String()] {
				diff := v.Sub(sc0.Get(w.Carol, d))
				if diff.IsPositive() {
					credited = credited.Add(sdk.NewCoin(d, diff))
				}
			}
			rep.Distinct(sig)
		}
		// the orbiter-addressed packet
		bo := Branch(w.Ctx)
		s0 := w.Snapshot(bo)
		ro := w.Recv(bo, pOrb)
		if ro.Panic != "" {
			rep.Violate(Violation{Kind: "panic", Group: group, Sig: sig, Replay: replay, What: "orbiter-addressed packet panicked: " + ro.Panic + " " + sig})
			return
		}
		if rc.Panic != "" {
			// ibc-go v8.6.1 itself panics on this packet when it is addressed to an ORDINARY account (e.g. a base
			// denom starting with a digit reaches sdk.NewCoin in the transfer keeper): third-party, no orbiter
			// code involved; the orbiter-addressed twin was refused cleanly above.
			rep.Outcome("plain-flow-panics-in-ibc-go(third-party)")
			return
		}
		if ro.Success {
			rep.Outcome("accepted")
			base, ok := denomRef(c.denom, c.sp, c.sc)
			if !ok {
				rep.Violate(Violation{Kind: "accepted-token-that-is-not-a-returning-native", Group: group, Sig: sig, Replay: replay,
					What: fmt.Sprintf("orbiter packet accepted although the token is not a one-hop voucher of the packet's source port/channel: %s", sig)})
				return
			}
			// same coin: bob's delta and the statistics entry equal the credited coin
			after := w.Snapshot(bo)
			var got sdk.Coins
			for d, v := range after.Bal[w.Bob.String()] {
				diff := v.Sub(s0.Get(w.Bob, d))
				if diff.IsPositive() {
					got = got.Add(sdk.NewCoin(d, diff))
				}
			}
			if !rc.Success || !got.Equal(credited) || len(credited) != 1 || credited[0].Denom != base {
				rep.Violate(Violation{Kind: "acted-on-a-different-coin", Group: group, Sig: sig, Replay: replay,
					What: fmt.Sprintf("orbiter forwarded %s but ICS-20 credits %s (plain flow success=%v) for %s", got, credited, rc.Success, sig)})
				return
			}
			st, _ := w.exportedStats(bo, nil)
			wantStat := fmt.Sprintf("A 1:%s|4:noble|%s in=%s out=%s", c.dc, credited[0].Denom, credited[0].Amount, credited[0].Amount)
			found := false
			for _, l := range st {
				if l == wantStat {
					found = true
				}
			}
			if !found {
				rep.Violate(Violation{Kind: "recorded-a-different-coin", Group: group, Sig: sig, Replay: replay, What: fmt.Sprintf("statistics %v do not record the credited coin %s for %s", st, credited, sig)})
				return
			}
			rep.Count("traces_validated_against_impl", 1)
			return
		}
		rep.Outcome("refused")
		// seam differential: the coin the adapter derives vs the coin ICS-20 credits
		if !rc.Success || len(credited) != 1 {
			return
		}
		ccID, err1 := core.NewCrossChainID(core.PROTOCOL_IBC, c.dc)
		ccp, err2 := adaptertypes.NewIBCCrossChainPacket(c.sp, c.sc, pOrb.Data())
		if err1 != nil || err2 != nil {
			return
		}
		var op *orbPacketView
		func() {
			defer func() { recover() }()
			p, err := w.App.OrbiterKeeper.Adapter().AdaptPacket(Branch(w.Ctx), ccID, ccp)
			if err == nil && p != nil {
				op = &orbPacketView{p.TransferAttributes.SourceDenom(), p.TransferAttributes.SourceAmount().BigInt()}
			}
		}()
		if op == nil {
			return
		}
		rep.Count("seam_comparisons", 1)
		if op.denom == credited[0].Denom && op.amt.Cmp(credited[0].Amount.BigInt()) == 0 {
			rep.Outcome("refused-with-agreeing-coin")
			return
		}
		// disagreement at the seam: look for an ACCEPTED witness by compensation (a fixed fee of the surplus
		// paid to the orbiter account leaves the balance at the credited amount and lowers the amount to forward)
		rep.Outcome("seam-disagreement")
		if op.denom == credited[0].Denom && op.amt.Cmp(credited[0].Amount.BigInt()) > 0 {
			d := new(big.Int).Sub(op.amt, credited[0].Amount.BigInt())
			comp := Memo(w.FwdInternal(w.Bob), []FeeSpec{{To: w.Orb.String(), Fixed: d.String()}})
			pc := mk(w.Orb.String(), comp)
			bw := Branch(w.Ctx)
			rw := w.Recv(bw, pc)
			if rw.Success {
				rep.Violate(Violation{Kind: "acted-on-a-different-coin", Group: group, Sig: sig + " (compensated witness)", Replay: mustJSON(map[string]any{"ops": []Op{{Label: sig, Pkt: &pc}}}),
					What: fmt.Sprintf("the orbiter derives %s%s from the packet but ICS-20 credits %s; with a fixed fee of %s to the orbiter account the transfer is ACCEPTED and fees/statistics are computed on the wrong amount [%s]", op.amt, op.denom, credited, d, sig)})
				return
			}
		}
		rep.Outcome("seam-disagreement-always-refused")
	})
	c16Routes(rep, worlds, full)
	for i := 0; i < len(cases); i += len(cases)/6 + 1 {
		rep.Sample(fmt.Sprintf("%+v", cases[i]))
	}
	rep.Guard(rep.Outcomes["accepted"] > 20 && rep.Outcomes["refused"] > 1000, "outcome classes missing: %v", rep.Outcomes)
	return rep
}

type orbPacketView struct {
	denom string
	amt   *big.Int
}

// c16Routes — "acts on exactly the coin the ICS-20 application credited", on every ROUTE and with other
// denominations lying on the orbiter account. States: W0 and W0 + Env(hyp-synthetic) (a synthetic Hyperlane token
// exists; the account holds 1000 of it) each with and without stray balances of two further denominations.
// Packets: one-hop vouchers of every escrowed denomination × every route (internal, CCTP, Hyperlane collateral,
// Hyperlane synthetic) × fee shapes. Oracle on every SUCCESS: the escrow released exactly the credited coin; the
// orbiter account's balance of every OTHER denomination is unchanged and its balance of the credited denomination
// did not grow — so whatever left through the route was (part of) the credited coin and nothing else.
func c16Routes(rep *Report, worlds []*World, full bool) {
	w0 := worlds[0]
	type st struct {
		name string
		ops  []Op
	}
	strays := []Op{w0.OpDeposit(w0.Orb, denomOTH, 77), w0.OpDeposit(w0.Orb, denomBIG2, 1234567)}
	states := []st{{"W0", nil}, {"W0+strays", strays}, {"synthetic", []Op{OpEnv("hyp-synthetic")}}, {"synthetic+strays", append([]Op{OpEnv("hyp-synthetic")}, strays...)}}
	routes := []Fwd{w0.FwdInternal(w0.Bob), w0.FwdCCTP(0), w0.FwdHyp(1), w0.FwdHypSyn()}
	feeSets := [][]FeeSpec{nil, {{To: w0.Fee1.String(), Bps: 100}}}
	if full {
		feeSets = append(feeSets, []FeeSpec{{To: w0.Fee1.String(), Fixed: "1"}, {To: w0.Fee2.String(), Bps: 5000}})
	}
	bases := []string{denomUSDC, denomOTH, denomBIG2, w0.DenomSyn}
	amts := []string{"100", "1000", "1001"}
	type rc struct {
		si          int
		base, amt   string
		route, fees int
	}
	var cases []rc
	for si := range states {
		for _, b := range bases {
			for _, a := range amts {
				for ri := range routes {
					for fi := range feeSets {
						cases = append(cases, rc{si, b, a, ri, fi})
					}
				}
			}
		}
	}
	escrow := w0.Escrow0
	parallelFor(worlds, len(cases), func(w *World, i int) {
		c := cases[i]
		rep.Count("evaluations", 1)
		rep.Count("route_cases", 1)
		ctx := Branch(w.Ctx)
		for _, op := range states[c.si].ops {
			if r := w.Apply(ctx, op); !r.Succeeded() {
				rep.HarnessError("c16 routes: fixture op %s failed in %s: %+v %s", op.Label, states[c.si].name, r.Msg, r.Err)
				return
			}
		}
		p := Pkt{SrcPort: "transfer", SrcChan: "channel-7", DstPort: "transfer", DstChan: "channel-0", Denom: "transfer/channel-7/" + c.base, Amount: c.amt,
			Sender: defaultSender, Receiver: w.Orb.String(), Memo: Memo(routes[c.route], feeSets[c.fees])}
		sig := fmt.Sprintf("routes state=%s base=%s amount=%s route=%s fees=%d", states[c.si].name, c.base, c.amt, routes[c.route].String(), c.fees)
		ops := append(append([]Op{}, states[c.si].ops...), Op{Label: sig, Pkt: &p})
		replay := mustJSON(map[string]any{"ops": ops})
		s0 := w.Snapshot(ctx)
		r := w.Recv(ctx, p)
		if r.Panic != "" {
			rep.Violate(Violation{Kind: "panic", Group: "routes", Sig: sig, Replay: replay, What: "orbiter-addressed packet panicked: " + r.Panic + " " + sig})
			return
		}
		if !r.Success {
			rep.Outcome("route-refused")
			return
		}
		rep.Outcome("route-accepted")
		rep.Count(fmt.Sprintf("route-accepted:%s:%s:%s", states[c.si].name, c.base, routes[c.route].String()), 1)
		rep.Distinct(sig)
		s1 := w.Snapshot(ctx)
		amt, _ := math.NewIntFromString(c.amt)
		denoms := map[string]bool{}
		for _, a := range []sdk.AccAddress{w.Orb, escrow} {
			for d := range s0.Bal[a.String()] {
				denoms[d] = true
			}
			for d := range s1.Bal[a.String()] {
				denoms[d] = true
			}
		}
		for _, d := range sortedKeys(denoms) {
			dOrb := s1.Get(w.Orb, d).Sub(s0.Get(w.Orb, d))
			dEsc := s1.Get(escrow, d).Sub(s0.Get(escrow, d))
			bad := ""
			switch {
			case d == c.base && !dEsc.Equal(amt.Neg()):
				bad = fmt.Sprintf("the escrow released %s%s, the packet names %s", dEsc.Neg(), d, c.amt)
			case d == c.base && dOrb.IsPositive():
				bad = fmt.Sprintf("%s%s of the credited coin stayed on the orbiter account", dOrb, d)
			case d != c.base && !dEsc.IsZero():
				bad = fmt.Sprintf("the escrow's %s balance changed by %s although the packet carries %s", d, dEsc, c.base)
			case d != c.base && !dOrb.IsZero():
				bad = fmt.Sprintf("the orbiter account's %s balance changed by %s: the transfer acted on a coin ICS-20 did not credit (%s%s)", d, dOrb, c.amt, c.base)
			}
			if bad != "" {
				rep.Violate(Violation{Kind: "acted-on-a-different-coin", Group: "routes", Sig: sig, Replay: replay, What: bad + " [" + sig + "]"})
				return
			}
		}
		rep.Count("traces_validated_against_impl", 1)
	})
	rep.Guard(rep.Outcomes["route-accepted"] >= 20 && rep.Outcomes["route-refused"] >= 20, "route phase: outcome classes missing: %v", rep.Outcomes)
}
