package simapp

// queries.go — gRPC queries through the application's own GRPCQueryRouter.

import (
	"fmt"

	abci "github.com/cometbft/cometbft/abci/types"
	sdk "github.com/cosmos/cosmos-sdk/types"
	"github.com/cosmos/cosmos-sdk/types/query"
	"github.com/cosmos/gogoproto/proto"

	adaptertypes "github.com/noble-assets/orbiter/v2/types/component/adapter"
	executortypes "github.com/noble-assets/orbiter/v2/types/component/executor"
	forwardertypes "github.com/noble-assets/orbiter/v2/types/component/forwarder"
)

const (
	qFwd  = "/noble.orbiter.component.forwarder.v1.Query/"
	qExe  = "/noble.orbiter.component.executor.v1.Query/"
	qAda  = "/noble.orbiter.component.adapter.v1.Query/"
	qDis  = "/noble.orbiter.component.dispatcher.v1.Query/"
	qRoot = "/noble.orbiter.v1.Query/"
)

func (w *World) Query(ctx sdk.Context, path string, req, resp proto.Message) (err error) {
	defer func() {
		if r := recover(); r != nil {
			err = fmt.Errorf("QUERY-PANIC %s: %v", path, r)
		}
	}()
	h := w.App.GRPCQueryRouter().Route(path)
	if h == nil {
		return fmt.Errorf("no query route %s", path)
	}
	bz, err := proto.Marshal(req)
	if err != nil {
		return err
	}
	res, err := h(ctx, &abci.RequestQuery{Data: bz, Path: path})
	if err != nil {
		return err
	}
	return proto.Unmarshal(res.Value, resp)
}

func (w *World) QPausedProtocols(ctx sdk.Context) ([]string, error) {
	var r forwardertypes.QueryPausedProtocolsResponse
	if err := w.Query(ctx, qFwd+"PausedProtocols", &forwardertypes.QueryPausedProtocolsRequest{}, &r); err != nil {
		return nil, err
	}
	out := []string{}
	for _, p := range r.ProtocolIds {
		out = append(out, p.String())
	}
	return out, nil
}

func (w *World) QIsProtocolPaused(ctx sdk.Context, p string) (bool, error) {
	var r forwardertypes.QueryIsProtocolPausedResponse
	err := w.Query(ctx, qFwd+"IsProtocolPaused", &forwardertypes.QueryIsProtocolPausedRequest{ProtocolId: p}, &r)
	return r.IsPaused, err
}

func (w *World) QIsCrossChainPaused(ctx sdk.Context, p, cp string) (bool, error) {
	var r forwardertypes.QueryIsCrossChainPausedResponse
	err := w.Query(ctx, qFwd+"IsCrossChainPaused", &forwardertypes.QueryIsCrossChainPausedRequest{ProtocolId: p, CounterpartyId: cp}, &r)
	return r.IsPaused, err
}

// QPausedCrossChains: one page.
func (w *World) QPausedCrossChains(ctx sdk.Context, p string, page *query.PageRequest) ([]string, *query.PageResponse, error) {
	var r forwardertypes.QueryPausedCrossChainsResponse
	err := w.Query(ctx, qFwd+"PausedCrossChains", &forwardertypes.QueryPausedCrossChainsRequest{ProtocolId: p, Pagination: page}, &r)
	return r.CounterpartyIds, r.Pagination, err
}

// QPausedCrossChainsWalk follows next-keys with the given page size until exhaustion.
func (w *World) QPausedCrossChainsWalk(ctx sdk.Context, p string, limit uint64) ([]string, error) {
	var out []string
	var key []byte
	for i := 0; i < 10000; i++ {
		ids, pr, err := w.QPausedCrossChains(ctx, p, &query.PageRequest{Key: key, Limit: limit})
		if err != nil {
			return nil, err
		}
		out = append(out, ids...)
		if pr == nil || len(pr.NextKey) == 0 {
			return out, nil
		}
		key = pr.NextKey
	}
	return nil, fmt.Errorf("pagination did not terminate")
}

func (w *World) QPausedActions(ctx sdk.Context) ([]string, error) {
	var r executortypes.QueryPausedActionsResponse
	if err := w.Query(ctx, qExe+"PausedActions", &executortypes.QueryPausedActionsRequest{}, &r); err != nil {
		return nil, err
	}
	out := []string{}
	for _, p := range r.ActionIds {
		out = append(out, p.String())
	}
	return out, nil
}

func (w *World) QIsActionPaused(ctx sdk.Context, a string) (bool, error) {
	var r executortypes.QueryIsActionPausedResponse
	err := w.Query(ctx, qExe+"IsActionPaused", &executortypes.QueryIsActionPausedRequest{ActionId: a}, &r)
	return r.IsPaused, err
}

func (w *World) QParams(ctx sdk.Context) (uint32, error) {
	var r adaptertypes.QueryParamsResponse
	err := w.Query(ctx, qAda+"Params", &adaptertypes.QueryParamsRequest{}, &r)
	return r.Params.MaxPassthroughPayloadSize, err
}
