package simapp

// ledger.go — transfer specifications, the fee reference (math/big), the expected whole-ledger delta
// of a successful orbiter transfer, and the classification of receivers.

import (
	"fmt"
	"math/big"
	"strings"

	"github.com/cosmos/btcutil/bech32"
	sdk "github.com/cosmos/cosmos-sdk/types"
	authtypes "github.com/cosmos/cosmos-sdk/x/auth/types"
)

var two256 = new(big.Int).Lsh(big.NewInt(1), 256)
var maxU256 = new(big.Int).Sub(two256, big.NewInt(1))

// parseIntLikeSDK mirrors cosmossdk.io/math.NewIntFromString: big.Int.SetString(s, 0) and |x| < 2^256.
func parseIntLikeSDK(s string) (*big.Int, bool) {
	v, ok := new(big.Int).SetString(s, 0)
	if !ok {
		return nil, false
	}
	if v.BitLen() > 256 {
		return nil, false
	}
	return v, true
}

// TransferSpec: an orbiter-style transfer in harness notation.
type TransferSpec struct {
	Chan     string // destination channel on Noble: channel-0 | channel-1
	Base     string // Noble-native base denom being returned
	Amount   string
	Receiver string
	Fwd      Fwd
	Fees     []FeeSpec
}

func (t TransferSpec) Pkt() Pkt {
	if t.Fwd.SwapFirst {
		acts := []string{swapActionJSON}
		if len(t.Fees) > 0 {
			acts = append(acts, feeActionJSON(t.Fees))
		}
		return NewPkt(t.Chan, t.Base, t.Amount, t.Receiver, MemoJSON(t.Fwd, acts...))
	}
	return NewPkt(t.Chan, t.Base, t.Amount, t.Receiver, Memo(t.Fwd, t.Fees))
}

func (t TransferSpec) Label() string {
	fs := []string{}
	for _, f := range t.Fees {
		fs = append(fs, f.String())
	}
	sw := ""
	if t.Fwd.SwapFirst {
		sw = " swap"
	}
	return fmt.Sprintf("T[%s %s%s%s -> %s fees=%v rcv=%s]", t.Chan, t.Amount, t.Base, sw, t.Fwd, fs, shortAddr(t.Receiver))
}

// feeRef: the reference fee computation. Returns per-entry fee amounts and whether the fee action
// must be REFUSED by the property's list (C04), for amount A.
type feeRefResult struct {
	Entries []*big.Int // fee per entry (0 for entries that round to zero)
	Total   *big.Int
	Refuse  string // non-empty: reason from the property's refusal list
	// Ambiguous: some fixed amount is a positive integer only under the SDK's lenient reading ("+1", "0x10",
	// "1_0", "010") and not in plain decimal: the property's "positive integer" does not fix whether such a
	// spelling is one, so neither refusal nor the lenient value is demanded for it.
	Ambiguous bool
}

func plainDecimal(s string) bool {
	if s == "" || (len(s) > 1 && s[0] == '0') {
		return false
	}
	for _, c := range s {
		if c < '0' || c > '9' {
			return false
		}
	}
	return true
}

func feeRef(A *big.Int, fees []FeeSpec) feeRefResult {
	r := feeRefResult{Total: new(big.Int)}
	if len(fees) > 5 {
		r.Refuse = "more than five entries"
	}
	for _, f := range fees {
		if _, err := sdk.AccAddressFromBech32(f.To); err != nil && r.Refuse == "" {
			r.Refuse = "recipient not a valid address"
		}
		var fee *big.Int
		if f.IsFixed() {
			v, ok := parseIntLikeSDK(f.Fixed)
			if ok && v.Sign() > 0 && !plainDecimal(f.Fixed) {
				r.Ambiguous = true
			}
			if !ok || v.Sign() <= 0 {
				if r.Refuse == "" {
					r.Refuse = "fixed amount not a positive integer"
				}
				fee = new(big.Int)
			} else {
				fee = v
			}
		} else {
			if f.Bps == 0 || f.Bps > 10000 {
				if r.Refuse == "" {
					r.Refuse = "bps 0 or above 10000"
				}
				fee = new(big.Int)
			} else {
				prod := new(big.Int).Mul(A, big.NewInt(int64(f.Bps)))
				if prod.Cmp(maxU256) > 0 && r.Refuse == "" {
					r.Refuse = "arithmetic overflow"
				}
				fee = prod.Quo(prod, big.NewInt(10000))
			}
		}
		r.Entries = append(r.Entries, fee)
		r.Total.Add(r.Total, fee)
	}
	if r.Refuse == "" && r.Total.Cmp(maxU256) > 0 {
		r.Refuse = "arithmetic overflow"
	}
	if r.Refuse == "" && len(fees) > 0 && r.Total.Cmp(A) >= 0 {
		r.Refuse = "sum not strictly below amount"
	}
	return r
}

// decodesTo reports whether s is accepted by the SDK's bech32 account decoder as addr.
func decodesTo(s string, addr sdk.AccAddress) bool {
	a, err := sdk.AccAddressFromBech32(s)
	return err == nil && a.Equals(addr)
}

func moduleAddr(name string) sdk.AccAddress { return authtypes.NewModuleAddress(name) }

// expectedDelta: the whole-ledger delta the property (C02) prescribes for a SUCCESSFUL orbiter
// transfer of amount A (denom D) with the given fees and route, when the orbiter account held
// `stray` of D before the packet. Deltas are summed per address, so coinciding recipients are fine.
func (w *World) expectedDelta(t TransferSpec, stray *big.Int) (bal Delta, supply Delta, out *big.Int, err error) {
	A, ok := parseIntLikeSDK(t.Amount)
	if !ok || A.Sign() <= 0 {
		return nil, nil, nil, fmt.Errorf("amount %q not positive", t.Amount)
	}
	D := t.Base
	acc := map[string]*big.Int{}
	addD := func(addr sdk.AccAddress, denom string, v *big.Int) {
		k := addr.String() + "|" + denom
		if acc[k] == nil {
			acc[k] = new(big.Int)
		}
		acc[k].Add(acc[k], v)
	}
	add := func(addr sdk.AccAddress, v *big.Int) { addD(addr, D, v) }
	esc := w.Escrow0
	if t.Chan == "channel-1" {
		esc = w.Escrow1
	}
	add(esc, new(big.Int).Neg(A))
	run, runDenom := A, D
	if t.Fwd.SwapFirst {
		// swapT: the running coin goes to the pool (carol), twice as many uusdc come from alice
		add(w.Carol, A)
		run, runDenom = new(big.Int).Mul(A, big.NewInt(2)), denomUSDC
		addD(w.Alice, denomUSDC, new(big.Int).Neg(run))
	}
	fr := feeRef(run, t.Fees)
	for i, f := range t.Fees {
		to, e := sdk.AccAddressFromBech32(f.To)
		if e != nil {
			return nil, nil, nil, fmt.Errorf("fee recipient invalid")
		}
		addD(to, runDenom, fr.Entries[i])
	}
	out = new(big.Int).Sub(run, fr.Total)
	supply = Delta{}
	switch t.Fwd.Kind {
	case "internal":
		to, e := sdk.AccAddressFromBech32(t.Fwd.To)
		if e != nil {
			return nil, nil, nil, fmt.Errorf("internal recipient invalid")
		}
		addD(to, runDenom, out)
	case "hyp":
		addD(moduleAddr("warp"), runDenom, out)
	case "cctp":
		supply[runDenom] = new(big.Int).Neg(out).String()
	}
	if stray.Sign() > 0 {
		add(w.Orb, new(big.Int).Neg(stray))
		add(w.Dust, stray)
	}
	bal = Delta{}
	for k, v := range acc {
		if v.Sign() != 0 {
			bal[k] = v.String()
		}
	}
	return bal, supply, out, nil
}

// receiverEncodings: spellings of an address, some decoding to it, some not (C01/C07 menus).
type rcvEnc struct {
	Name string
	S    string
}

func encodingsOf(addr sdk.AccAddress) []rcvEnc {
	canon := addr.String()
	upper := strings.ToUpper(canon)
	mixed := strings.ToUpper(canon[:10]) + canon[10:]
	// flip the last character (bad checksum)
	last := canon[len(canon)-1]
	repl := byte('q')
	if last == 'q' {
		repl = 'p'
	}
	badsum := canon[:len(canon)-1] + string(repl)
	conv, _ := bech32.ConvertBits(addr.Bytes(), 8, 5, true)
	other, _ := bech32.Encode("cosmos", conv)
	m := bech32mEncode("noble", conv)
	return []rcvEnc{
		{"canonical", canon}, {"UPPER", upper}, {"MiXed", mixed}, {"badchecksum", badsum},
		{"bech32m", m}, {"otherHRP", other}, {"lead-space", " " + canon}, {"trail-space", canon + " "},
	}
}

// bech32mEncode: BIP-350 spelling (checksum constant 0x2bc830a3) of 5-bit data.
func bech32mEncode(hrp string, data []byte) string {
	const charset = "qpzry9x8gf2tvdw0s3jn54khce6mua7l"
	polymod := func(values []byte) uint32 {
		gen := []uint32{0x3b6a57b2, 0x26508e6d, 0x1ea119fa, 0x3d4233dd, 0x2a1462b3}
		chk := uint32(1)
		for _, v := range values {
			b := chk >> 25
			chk = (chk&0x1ffffff)<<5 ^ uint32(v)
			for i := 0; i < 5; i++ {
				if (b>>uint(i))&1 == 1 {
					chk ^= gen[i]
				}
			}
		}
		return chk
	}
	var exp []byte
	for _, c := range hrp {
		exp = append(exp, byte(c)>>5)
	}
	exp = append(exp, 0)
	for _, c := range hrp {
		exp = append(exp, byte(c)&31)
	}
	vals := append(append(exp, data...), 0, 0, 0, 0, 0, 0)
	pm := polymod(vals) ^ 0x2bc830a3
	out := hrp + "1"
	for _, d := range data {
		out += string(charset[d])
	}
	for i := 0; i < 6; i++ {
		out += string(charset[(pm>>uint(5*(5-i)))&31])
	}
	return out
}

// roleOf names the fixture's well-known addresses (for stable, readable violation signatures).
func (w *World) roleOf(addr string) string {
	roles := map[string]string{
		w.Orb.String(): "orb", w.Dust.String(): "dust", w.Alice.String(): "alice", w.Bob.String(): "bob", w.Carol.String(): "carol",
		w.Fee1.String(): "fee1", w.Fee2.String(): "fee2", w.Mallory.String(): "mallory", w.Escrow0.String(): "escrow0", w.Escrow1.String(): "escrow1",
		moduleAddr("warp").String(): "warp", moduleAddr("hyperlane").String(): "hyperlane", moduleAddr("cctp").String(): "cctp",
		moduleAddr("transfer").String(): "transfer", moduleAddr("fiat-tokenfactory").String(): "ftf",
	}
	if r, ok := roles[addr]; ok {
		return r
	}
	return addr
}

// deltaDiscrepancy: got - want per key, with addresses replaced by role names.
func (w *World) deltaDiscrepancy(got, want Delta) Delta {
	out := Delta{}
	keys := map[string]bool{}
	for k := range got {
		keys[k] = true
	}
	for k := range want {
		keys[k] = true
	}
	for k := range keys {
		g, _ := new(big.Int).SetString(orZero(got[k]), 10)
		x, _ := new(big.Int).SetString(orZero(want[k]), 10)
		d := new(big.Int).Sub(g, x)
		if d.Sign() != 0 {
			parts := strings.SplitN(k, "|", 2)
			name := w.roleOf(parts[0])
			if len(parts) == 2 {
				name += "|" + parts[1]
			}
			out[name] = d.String()
		}
	}
	return out
}

func orZero(s string) string {
	if s == "" {
		return "0"
	}
	return s
}
