package simapp

// C17 — genesis export/import round-trips and validated genesis initialises.
// (a) E4 over E1 states: on every reached state export -> ValidateGenesis -> wipe the orbiter store on a
//     branch -> InitGenesis -> export; the re-imported branch must have byte-identical orbiter stores and
//     behave identically under probes.
// (b) E2 over a document grammar (Go structs) and over ALL single-point JSON mutations of an exported
//     genesis: ValidateGenesis(doc) == nil  =>  InitGenesis(doc) neither errors nor panics, and the state it
//     creates itself round-trips.

import (
	"bytes"
	"encoding/json"
	"fmt"
	"strings"

	"cosmossdk.io/math"
	sdk "github.com/cosmos/cosmos-sdk/types"
	"github.com/cosmos/cosmos-sdk/types/module"
	"github.com/cosmos/cosmos-sdk/types/query"
	"sort"

	orbtypes "github.com/noble-assets/orbiter/v2/types"
	adaptertypes "github.com/noble-assets/orbiter/v2/types/component/adapter"
	dispatchertypes "github.com/noble-assets/orbiter/v2/types/component/dispatcher"
	executortypes "github.com/noble-assets/orbiter/v2/types/component/executor"
	forwardertypes "github.com/noble-assets/orbiter/v2/types/component/forwarder"
	"github.com/noble-assets/orbiter/v2/types/core"
)

type orbModule interface {
	module.HasGenesisBasics
	module.HasGenesis
}

func (w *World) orbiterModule() (orbModule, error) {
	m, ok := w.App.ModuleManager.Modules[core.ModuleName]
	if !ok {
		return nil, fmt.Errorf("orbiter module not in the module manager")
	}
	om, ok := m.(orbModule)
	if !ok {
		return nil, fmt.Errorf("orbiter module %T does not implement HasGenesis", m)
	}
	return om, nil
}

// genesisRoundTrip performs export -> validate -> wipe -> init -> export on a branch of ctx, through the
// module's JSON entry points. Returns the re-imported branch.
func (w *World) genesisRoundTrip(ctx sdk.Context) (re sdk.Context, exported []byte, problem string) {
	om, err := w.orbiterModule()
	if err != nil {
		return ctx, nil, "HARNESS: " + err.Error()
	}
	cdc := w.App.appCodec
	func() {
		defer func() {
			if r := recover(); r != nil {
				problem = fmt.Sprintf("ExportGenesis panicked: %v", r)
			}
		}()
		exported = om.ExportGenesis(ctx, cdc)
	}()
	if problem != "" {
		return ctx, nil, problem
	}
	if err := om.ValidateGenesis(cdc, nil, exported); err != nil {
		return ctx, exported, "exported genesis does not pass ValidateGenesis: " + err.Error()
	}
	re = Branch(ctx)
	w.wipeOrbiterStore(re)
	func() {
		defer func() {
			if r := recover(); r != nil {
				problem = fmt.Sprintf("InitGenesis of the exported genesis panicked: %v", r)
			}
		}()
		om.InitGenesis(re, cdc, exported)
	}()
	if problem != "" {
		return re, exported, problem
	}
	var again []byte
	func() {
		defer func() {
			if r := recover(); r != nil {
				problem = fmt.Sprintf("re-export panicked: %v", r)
			}
		}()
		again = om.ExportGenesis(re, cdc)
	}()
	if problem == "" && !bytes.Equal(exported, again) {
		problem = fmt.Sprintf("re-export differs: first %s, second %s", trunc(string(exported), 400), trunc(string(again), 400))
	}
	return re, exported, problem
}

func init() { register("C17", checkC17) }

func checkC17(tier string) *Report {
	rep := NewReport("C17", tier, "model_checking")
	full := tier == "thorough"
	rep.Rule = "(a) every distinct state reachable by <=D operations over pauses, action pauses, parameter changes, transfers on all routes, refused transfers and imported near-maximal statistics: round trip + behavioural equivalence under probes; (b) genesis documents from a grammar (one component varied at a time and amounts × counts) and all single-point JSON mutations of an exported genesis. (c) chain level: at 4 (thorough 5, two generations) points of a real block history the WHOLE application state is exported (ExportAppStateAndValidators), a fresh chain is initialised from it with InitChain, the orbiter genesis must re-export byte-identically and the same continuation of real blocks (transfers to paused/unpaused destinations, accumulating transfers, size probes) must give the same tx codes, acknowledgements, refunds and final orbiter export on both. Non-trivial = states with non-default orbiter state + documents accepted by validation"
	rep.Assumptions = []string{
		"InitGenesis is run on a branch whose orbiter store was emptied (a fresh chain's orbiter store is empty); the other modules' stores are those of the fixture",
		"module-level JSON entry points (AppModule.ExportGenesis / ValidateGenesis / InitGenesis) are used for the round trip and the JSON mutations; the grammar documents are Go structs validated with GenesisState.Validate and initialised with Keeper.InitGenesis",
	}
	worlds, err := buildWorlds(numWorkers())
	if err != nil {
		rep.HarnessError("fixture: %v", err)
		return rep
	}
	w0 := worlds[0]
	orb := w0.Orb.String()
	alpha := []Op{
		w0.OpPauseProtocol("PROTOCOL_CCTP"), w0.OpPauseProtocol("PROTOCOL_INTERNAL"), w0.OpPauseCC("PROTOCOL_CCTP", "0"), w0.OpPauseCC("PROTOCOL_HYPERLANE", "1", "2"),
		w0.OpPauseCC("PROTOCOL_INTERNAL", "noble"), w0.OpPauseCC("PROTOCOL_IBC", "channel-0"), w0.OpUnpauseProtocol("PROTOCOL_CCTP"),
		w0.OpPauseAction("ACTION_FEE"), w0.OpPauseAction("ACTION_SWAP"), w0.OpUpdateParams(1), w0.OpUpdateParams(4294967295),
		w0.OpRecv("T(cctp0,fee)", TransferSpec{"channel-0", denomUSDC, "10000", orb, w0.FwdCCTP(0), []FeeSpec{{To: w0.Fee1.String(), Bps: 100}}}.Pkt()),
		w0.OpRecv("T(hyp1)", TransferSpec{"channel-1", denomUSDC, "777", orb, w0.FwdHyp(1), nil}.Pkt()),
		w0.OpRecv("T(internal,uother)", TransferSpec{"channel-0", denomOTH, "42", orb, w0.FwdInternal(w0.Bob), nil}.Pkt()),
		w0.OpRecv("T(internal,ch1)", TransferSpec{"channel-1", denomUSDC, "500", orb, w0.FwdInternal(w0.Bob), nil}.Pkt()),
		// the same route as T(internal,uother) in ANOTHER denomination: two statistics entries that differ only in the denom
		w0.OpRecv("T(internal,ch0,uusdc)", TransferSpec{"channel-0", denomUSDC, "43", orb, w0.FwdInternal(w0.Bob), nil}.Pkt()),
		w0.OpRecv("T(refused)", TransferSpec{"channel-0", denomUSDC, "2000000", orb, w0.FwdCCTP(0), nil}.Pkt()),
		OpEnv("seed-stats-top"), w0.OpDeposit(w0.Orb, denomUSDC, 5),
		OpEnv("bulk-pause-150"), OpEnv("bulk-stats-130"), // collections larger than one default query page (100 entries)
		// identifiers the free-form INTERNAL protocol may accept that do not survive a JSON document unchanged
		// (bytes that are not valid UTF-8 — a signed transaction can carry them: gogoproto does not validate strings)
		w0.OpPauseCCRaw("PROTOCOL_INTERNAL", "\xff", "\xfe"), w0.OpPauseCCRaw("PROTOCOL_INTERNAL", "a\xffb"), w0.OpPauseCCRaw("PROTOCOL_INTERNAL", "\xed\xa0\x80"),
		w0.OpPauseCC("PROTOCOL_INTERNAL", "\u2028", "é", "\ufffd"),
	}
	depth := 2
	if full {
		depth = 4
	}
	probes := []Pkt{
		TransferSpec{"channel-0", denomUSDC, "1000", orb, w0.FwdCCTP(0), []FeeSpec{{To: w0.Fee1.String(), Bps: 100}}}.Pkt(),
		TransferSpec{"channel-0", denomUSDC, "1000", orb, w0.FwdCCTPCaller(1), nil}.Pkt(),
		TransferSpec{"channel-1", denomUSDC, "1000", orb, w0.FwdHyp(1), nil}.Pkt(),
		TransferSpec{"channel-0", denomUSDC, "1000", orb, w0.FwdHyp(2), nil}.Pkt(),
		TransferSpec{"channel-1", denomUSDC, "1000", orb, w0.FwdInternal(w0.Bob), nil}.Pkt(),
		TransferSpec{"channel-0", denomOTH, "9", orb, w0.FwdInternal(w0.Bob), []FeeSpec{{To: w0.Fee2.String(), Fixed: "1"}}}.Pkt(),
		func() Pkt { f := w0.FwdInternal(w0.Bob); f.Passthrough = []byte{1, 2}; return NewPkt("channel-0", denomUSDC, "10", orb, MemoJSON(f)) }(),
	}
	x := &Explorer{Rep: rep, Prefix: alpha, Depth: depth, Budget: budgetFromEnv(map[string]int{"quick": 8, "thorough": 60}[tier])}
	x.OnState = func(wk *Worker, n Node, ctx sdk.Context, _ any) {
		w := wk.W
		path := pathLabels(alpha, n.Path)
		sig := strings.Join(path, " ; ")
		replay := mustJSON(map[string]any{"ops": append(n.Ops(alpha), OpEnv("genesis-roundtrip"))})
		re, exported, problem := w.genesisRoundTrip(ctx)
		rep.Count("probes", 1)
		if problem != "" {
			rep.Violate(Violation{Kind: "round-trip-failed", Sig: sig, Replay: replay, What: fmt.Sprintf("after [%s]: %s", sig, problem)})
			return
		}
		if len(n.Path) > 0 {
			rep.Distinct(sig)
		}
		// Byte-identical stores imply identical behaviour (processing is a function of the stores). Differing stores
		// are not a violation by themselves — an implementation may legitimately materialise a default on import —
		// so in that case every OBSERVABLE of the module is compared on both chains: all queries (pause sets,
		// parameters, every statistics listing and direct lookup) in addition to the probes below.
		if a, b := w.StoreKeyOf(ctx, "orbiter"), w.StoreKeyOf(re, "orbiter"); a != b {
			rep.Outcome("reimported-store-bytes-differ(observables compared)")
			if oa, ob := w.observables(ctx), w.observables(re); oa != ob {
				rep.Violate(Violation{Kind: "reimported-chain-behaves-differently", Sig: sig + " ; queries", Replay: replay,
					What: fmt.Sprintf("after [%s] the re-initialised chain answers queries differently (stores differ in %v): original %s / re-imported %s", sig, w.DiffStores(ctx, re), trunc(oa, 500), trunc(ob, 500))})
				return
			}
		}
		rep.Count("traces_validated_against_impl", 1)
		// behaviour: the probe set and two accumulating transfers give identical acks and final exports
		a, b := Branch(ctx), Branch(re)
		for i, p := range append(append([]Pkt{}, probes...), probes[0], probes[4]) {
			ra, rb := w.Recv(a, p), w.Recv(b, p)
			rep.Count("probes", 2)
			if !bytes.Equal(ra.Ack, rb.Ack) || ra.Panic != rb.Panic {
				rep.Violate(Violation{Kind: "reimported-chain-behaves-differently", Sig: fmt.Sprintf("%s ; probe#%d", sig, i), Replay: replay,
					What: fmt.Sprintf("after [%s] probe #%d: original %s / re-imported %s", sig, i, trunc(string(ra.Ack)+ra.Panic, 200), trunc(string(rb.Ack)+rb.Panic, 200))})
				return
			}
		}
		om, _ := w.orbiterModule()
		if ea, eb := om.ExportGenesis(a, w.App.appCodec), om.ExportGenesis(b, w.App.appCodec); !bytes.Equal(ea, eb) {
			rep.Violate(Violation{Kind: "reimported-chain-behaves-differently", Sig: sig + " ; final export", Replay: replay, What: "final exports differ after identical probes"})
		}
		rep.Outcome("state-round-trips")
		if len(n.Path) == depth && n.Path[0]%5 == 0 && n.Path[1]%4 == 1 {
			rep.Sample(map[string]any{"history": path, "exported": trunc(string(exported), 300)})
		}
	}
	x.RunOn(worlds)

	c17Documents(rep, worlds, full)
	c17JSONDocuments(rep, worlds, full)
	c17JSONMutations(rep, worlds[0])
	// (c) chain level: whole-application export -> InitChain of a fresh chain -> same continuation on both (loop.go)
	if err := loopRestartCheck(rep, full); err != nil {
		rep.HarnessError("chain restart: %v", err)
	}
	rep.Guard(rep.Outcomes["chain-restart-reexport-identical"] >= 3 && rep.Outcomes["chain-restart-continuation-identical"] >= 3, "chain restart phase vacuous: %v", rep.Outcomes)
	rep.Guard(rep.Outcomes["state-round-trips"] > 50, "too few states round-tripped: %v", rep.Outcomes)
	rep.Guard(rep.Outcomes["doc-accepted-and-initialised"] > 100 && rep.Outcomes["doc-rejected-by-validation"] > 100, "document grammar vacuous: %v", rep.Outcomes)
	return rep
}

func ccid(p int32, cp string) *core.CrossChainID {
	return &core.CrossChainID{ProtocolId: core.ProtocolID(p), CounterpartyId: cp}
}

func listsOf[T any](menu []T, maxLen int) [][]T {
	out := [][]T{nil}
	cur := [][]T{nil}
	for l := 1; l <= maxLen; l++ {
		var next [][]T
		for _, p := range cur {
			for _, m := range menu {
				next = append(next, append(append([]T{}, p...), m))
			}
		}
		out = append(out, next...)
		cur = next
	}
	return out
}

func c17Documents(rep *Report, worlds []*World, full bool) {
	max256 := sdkIntFromBig(maxU256)
	amt := func(in, out int64) dispatchertypes.AmountDispatched {
		return dispatchertypes.AmountDispatched{Incoming: math.NewInt(in), Outgoing: math.NewInt(out)}
	}
	protoMenu := []core.ProtocolID{1, 2, 3, 4, 0, 7, -1}
	actMenu := []core.ActionID{1, 2, 0, 9}
	ccMenu := []*core.CrossChainID{ccid(2, "0"), ccid(3, "1"), ccid(4, "noble"), ccid(1, "channel-0"), nil, ccid(2, "x"), ccid(4, strings.Repeat("a", 32)), ccid(4, strings.Repeat("a", 33)),
		ccid(1, "channel-18446744073709551615"), ccid(2, "4294967295"), ccid(2, "4294967296"), ccid(4, "a:b"), ccid(4, "a\x00b"), ccid(2, "+0"), ccid(0, "0"), ccid(4, ""), ccid(4, "é"), ccid(4, "日本")}
	amtMenu := []dispatchertypes.DispatchedAmountEntry{
		{SourceId: ccid(1, "channel-0"), DestinationId: ccid(2, "0"), Denom: "uusdc", AmountDispatched: amt(10, 9)},
		{SourceId: ccid(1, "channel-1"), DestinationId: ccid(4, "noble"), Denom: "uother", AmountDispatched: amt(5, 5)},
		{SourceId: ccid(1, "channel-0"), DestinationId: ccid(2, "0"), Denom: "uusdc", AmountDispatched: amt(77, 70)}, // same key as #0
		{SourceId: ccid(1, "channel-0"), DestinationId: ccid(2, "0"), Denom: "uusdc", AmountDispatched: amt(0, 0)},
		{SourceId: ccid(1, "channel-0"), DestinationId: ccid(2, "0"), Denom: "uusdc", AmountDispatched: amt(-1, 5)},
		{SourceId: nil, DestinationId: ccid(2, "0"), Denom: "uusdc", AmountDispatched: amt(1, 1)},
		{SourceId: ccid(1, "channel-0"), DestinationId: nil, Denom: "uusdc", AmountDispatched: amt(1, 1)},
		{SourceId: ccid(1, "channel-0"), DestinationId: ccid(2, "0"), Denom: "", AmountDispatched: amt(1, 1)},
		{SourceId: ccid(1, "channel-0"), DestinationId: ccid(4, "vault:treasury"), Denom: "uusdc", AmountDispatched: amt(3, 3)},
		{SourceId: ccid(1, "channel-0"), DestinationId: ccid(4, "a\x00b"), Denom: "uusdc", AmountDispatched: amt(3, 3)},
		{SourceId: ccid(1, "channel-0"), DestinationId: ccid(4, ":"), Denom: "u/s:d c", AmountDispatched: amt(3, 0)},
		// identifiers outside ASCII in NON-terminal key positions (source and destination of a statistics entry)
		{SourceId: ccid(1, "channel-0"), DestinationId: ccid(4, "é"), Denom: "uusdc", AmountDispatched: amt(4, 4)},
		{SourceId: ccid(4, "日本"), DestinationId: ccid(4, "\u2028x"), Denom: "uusdc", AmountDispatched: amt(4, 3)},
		{SourceId: ccid(1, "channel-0"), DestinationId: ccid(3, "4294967295"), Denom: "uusdc", AmountDispatched: dispatchertypes.AmountDispatched{Incoming: max256, Outgoing: max256}},
		// (an entry with a nil math.Int is not expressible as a JSON document — the codec never produces it — and is left out)
		{SourceId: ccid(2, "0"), DestinationId: ccid(1, "channel-3"), Denom: "uusdc", AmountDispatched: amt(1, 0)},
		{SourceId: ccid(4, "noble"), DestinationId: ccid(4, "noble"), Denom: "uusdc", AmountDispatched: amt(0, 1)},
		{SourceId: ccid(1, "channel-0"), DestinationId: ccid(2, "01"), Denom: "uusdc", AmountDispatched: amt(1, 1)},
		// denominations no transfer can record: the secondary index stores the denom as a NON-terminal key part
		{SourceId: ccid(1, "channel-0"), DestinationId: ccid(2, "0"), Denom: "u\x00sdc", AmountDispatched: amt(1, 1)},
		{SourceId: ccid(1, "channel-0"), DestinationId: ccid(2, "0"), Denom: "\x00", AmountDispatched: amt(1, 1)},
		{SourceId: ccid(1, "channel-0"), DestinationId: ccid(2, "0"), Denom: strings.Repeat("d", 300), AmountDispatched: amt(1, 1)},
		{SourceId: ccid(1, "channel-0"), DestinationId: ccid(2, "0"), Denom: "ibc/" + strings.Repeat("A", 64), AmountDispatched: amt(1, 1)},
	}
	cntMenu := []dispatchertypes.DispatchCountEntry{
		{SourceId: ccid(1, "channel-0"), DestinationId: ccid(2, "0"), Count: 3},
		{SourceId: ccid(1, "channel-0"), DestinationId: ccid(2, "0"), Count: 5}, // same key
		{SourceId: ccid(1, "channel-0"), DestinationId: ccid(2, "0"), Count: 0},
		{SourceId: ccid(1, "channel-1"), DestinationId: ccid(4, "a:b"), Count: 18446744073709551615},
		{SourceId: nil, DestinationId: ccid(2, "0"), Count: 1},
		{SourceId: ccid(1, "channel-0"), DestinationId: nil, Count: 1},
	}
	var docs []*orbtypes.GenesisState
	var labels []string
	add := func(label string, f func(g *orbtypes.GenesisState)) {
		g := orbtypes.DefaultGenesisState()
		f(g)
		docs = append(docs, g)
		labels = append(labels, label)
	}
	for _, l := range listsOf(protoMenu, 3) {
		l := l
		add(fmt.Sprintf("paused_protocols=%v", l), func(g *orbtypes.GenesisState) { g.ForwarderGenesis.PausedProtocolIds = l })
	}
	for _, l := range listsOf(actMenu, 3) {
		l := l
		add(fmt.Sprintf("paused_actions=%v", l), func(g *orbtypes.GenesisState) { g.ExecutorGenesis.PausedActionIds = l })
	}
	ccLen := 2
	if full {
		ccLen = 3
	}
	for _, l := range listsOf(ccMenu, ccLen) {
		l := l
		add(fmt.Sprintf("paused_cross_chains=%v", l), func(g *orbtypes.GenesisState) { g.ForwarderGenesis.PausedCrossChainIds = l })
	}
	for _, la := range listsOf(amtMenu, 2) {
		for _, lc := range listsOf(cntMenu, 2) {
			la, lc := la, lc
			if !full && len(la) == 2 && len(lc) == 2 {
				continue
			}
			add(fmt.Sprintf("amounts=%d entries %v counts=%d entries %v", len(la), amtIdx(la, amtMenu), len(lc), cntIdx(lc, cntMenu)), func(g *orbtypes.GenesisState) {
				g.DispatcherGenesis.DispatchedAmounts = la
				g.DispatcherGenesis.DispatchedCounts = lc
			})
		}
	}
	for _, v := range []uint32{0, 1, 4294967295} {
		v := v
		add(fmt.Sprintf("params=%d", v), func(g *orbtypes.GenesisState) { g.AdapterGenesis.Params.MaxPassthroughPayloadSize = v })
	}
	add("nil adapter genesis", func(g *orbtypes.GenesisState) { g.AdapterGenesis = nil })
	add("nil dispatcher genesis", func(g *orbtypes.GenesisState) { g.DispatcherGenesis = nil })
	add("nil forwarder genesis", func(g *orbtypes.GenesisState) { g.ForwarderGenesis = nil })
	add("nil executor genesis", func(g *orbtypes.GenesisState) { g.ExecutorGenesis = nil })
	add("all nil", func(g *orbtypes.GenesisState) { *g = orbtypes.GenesisState{} })
	_ = adaptertypes.Params{}
	_ = executortypes.GenesisState{}
	_ = forwardertypes.GenesisState{}
	rep.Extra["grammar_documents"] = len(docs)
	parallelFor(worlds, len(docs), func(w *World, i int) {
		g, label := docs[i], labels[i]
		rep.Count("evaluations", 1)
		sig := "doc " + trunc(label, 300)
		replay := mustJSON(map[string]any{"genesis_label": label})
		var verr error
		var vpan any
		func() {
			defer func() { vpan = recover() }()
			verr = g.Validate()
		}()
		if vpan != nil {
			rep.Outcome("doc-validation-panicked")
			rep.Violate(Violation{Kind: "validate-genesis-panics", Group: label[:strings.Index(label+"=", "=")], Sig: sig, Replay: replay, What: fmt.Sprintf("GenesisState.Validate panicked (%v) on %s", vpan, trunc(label, 300))})
			return
		}
		if verr != nil {
			rep.Outcome("doc-rejected-by-validation")
			return
		}
		rep.Distinct(sig)
		b := Branch(w.Ctx)
		w.wipeOrbiterStore(b)
		var ipan any
		func() {
			defer func() { ipan = recover() }()
			w.App.OrbiterKeeper.InitGenesis(b, *g)
		}()
		if ipan != nil {
			rep.Outcome("doc-accepted-but-init-fails")
			rep.Violate(Violation{Kind: "validated-genesis-cannot-be-initialised", Group: label[:strings.Index(label+"=", "=")], Sig: sig, Replay: replay,
				What: fmt.Sprintf("genesis passes validation but InitGenesis fails: %v  [%s]", ipan, trunc(label, 300))})
			return
		}
		// the initialised state must CONTAIN the document: what the module exports right after the import is the document's
		// content (as sets; for a key the document lists more than once any of its values; all-zero entries are left open)
		if problem := docContentProblem(g, w.App.OrbiterKeeper.ExportGenesis(b)); problem != "" {
			rep.Outcome("doc-accepted-but-content-lost")
			rep.Violate(Violation{Kind: "initialised-state-is-not-the-document", Group: label[:strings.Index(label+"=", "=")], Sig: sig, Replay: replay,
				What: fmt.Sprintf("genesis passes validation and initialises, but the state exported right afterwards is not the document's content: %s  [%s]", problem, trunc(label, 300))})
			return
		}
		// the state created by this genesis must itself export / validate / re-import
		if _, _, problem := w.genesisRoundTrip(b); problem != "" {
			rep.Violate(Violation{Kind: "state-from-validated-genesis-does-not-round-trip", Group: label[:strings.Index(label+"=", "=")], Sig: sig, Replay: replay,
				What: fmt.Sprintf("state initialised from a validated genesis does not round-trip: %s  [%s]", problem, trunc(label, 300))})
			return
		}
		rep.Outcome("doc-accepted-and-initialised")
	})
}

func amtIdx(l []dispatchertypes.DispatchedAmountEntry, menu []dispatchertypes.DispatchedAmountEntry) []int {
	var out []int
	for _, e := range l {
		for i := range menu {
			if fmt.Sprint(e) == fmt.Sprint(menu[i]) {
				out = append(out, i)
				break
			}
		}
	}
	return out
}

func cntIdx(l []dispatchertypes.DispatchCountEntry, menu []dispatchertypes.DispatchCountEntry) []int {
	var out []int
	for _, e := range l {
		for i := range menu {
			if fmt.Sprint(e) == fmt.Sprint(menu[i]) {
				out = append(out, i)
				break
			}
		}
	}
	return out
}

// c17JSONMutations: all single-point mutations of one exported genesis through the module's JSON entry points.
func c17JSONMutations(rep *Report, w *World) {
	om, err := w.orbiterModule()
	if err != nil {
		rep.HarnessError("%v", err)
		return
	}
	ctx := Branch(w.Ctx)
	for _, op := range []Op{w.OpPauseProtocol("PROTOCOL_CCTP"), w.OpPauseCC("PROTOCOL_HYPERLANE", "1", "2"), w.OpPauseAction("ACTION_FEE"), w.OpUpdateParams(9),
		w.OpRecv("t1", TransferSpec{"channel-0", denomUSDC, "10000", w.Orb.String(), w.FwdInternal(w.Bob), []FeeSpec{{To: w.Fee1.String(), Bps: 100}}}.Pkt()),
		w.OpRecv("t2", TransferSpec{"channel-1", denomUSDC, "777", w.Orb.String(), w.FwdHyp(2), nil}.Pkt())} {
		w.Apply(ctx, op)
	}
	exported := om.ExportGenesis(ctx, w.App.appCodec)
	tree, err := jparse(string(exported))
	if err != nil {
		rep.HarnessError("exported genesis is not JSON: %v", err)
		return
	}
	muts := SingleMutations(tree, nil, allEnumNames)
	rep.Extra["genesis_json_mutations"] = len(muts)
	for _, m := range muts {
		doc, ok := applyMutations(tree, m)
		if !ok {
			continue
		}
		rep.Count("evaluations", 1)
		sig := "genesis-json " + m.Name
		replay := mustJSON(map[string]any{"genesis": json.RawMessage(doc)})
		var verr error
		var vpan any
		func() {
			defer func() { vpan = recover() }()
			verr = om.ValidateGenesis(w.App.appCodec, nil, []byte(doc))
		}()
		if vpan != nil {
			rep.Violate(Violation{Kind: "validate-genesis-panics", Group: "json", Sig: sig, Replay: replay, What: fmt.Sprintf("ValidateGenesis panicked (%v) on mutation %s", vpan, m.Name)})
			continue
		}
		if verr != nil {
			rep.Outcome("doc-rejected-by-validation")
			continue
		}
		rep.Distinct(sig)
		b := Branch(w.Ctx)
		w.wipeOrbiterStore(b)
		var ipan any
		func() {
			defer func() { ipan = recover() }()
			om.InitGenesis(b, w.App.appCodec, []byte(doc))
		}()
		if ipan != nil {
			rep.Violate(Violation{Kind: "validated-genesis-cannot-be-initialised", Group: "json", Sig: sig, Replay: replay,
				What: fmt.Sprintf("genesis passes ValidateGenesis but InitGenesis fails: %v  [mutation %s]", ipan, m.Name)})
			continue
		}
		var parsed orbtypes.GenesisState
		if err := w.App.appCodec.UnmarshalJSON([]byte(doc), &parsed); err == nil {
			if problem := docContentProblem(&parsed, w.App.OrbiterKeeper.ExportGenesis(b)); problem != "" {
				rep.Violate(Violation{Kind: "initialised-state-is-not-the-document", Group: "json", Sig: sig, Replay: replay,
					What: fmt.Sprintf("genesis passes validation and initialises, but the state exported right afterwards is not its content: %s  [mutation %s]", problem, m.Name)})
				continue
			}
		}
		if _, _, problem := w.genesisRoundTrip(b); problem != "" {
			rep.Violate(Violation{Kind: "state-from-validated-genesis-does-not-round-trip", Group: "json", Sig: sig, Replay: replay,
				What: fmt.Sprintf("state initialised from a validated genesis does not round-trip: %s  [mutation %s]", problem, m.Name)})
			continue
		}
		rep.Outcome("doc-accepted-and-initialised")
	}
}

// observables: every query answer of the module in canonical text (used when stores are not byte-identical).
func (w *World) observables(ctx sdk.Context) string {
	var b strings.Builder
	m, err := w.pauseSetsFromQueries(ctx)
	fmt.Fprintf(&b, "pause=%s err=%v;", m, err)
	for _, p := range sortedKeys(supportedProtocols) {
		v, err := w.QIsProtocolPaused(ctx, p)
		fmt.Fprintf(&b, "isP(%s)=%v,%v;", p, v, err)
	}
	as, err := w.QPausedActions(ctx)
	sort.Strings(as)
	fmt.Fprintf(&b, "actions=%v err=%v;", as, err)
	for _, a := range sortedKeys(supportedActions) {
		v, err := w.QIsActionPaused(ctx, a)
		fmt.Fprintf(&b, "isA(%s)=%v,%v;", a, v, err)
	}
	pv, err := w.QParams(ctx)
	fmt.Fprintf(&b, "params=%d err=%v;", pv, err)
	for _, rpc := range []string{"DispatchedAmountsBySourceProtocolID", "DispatchedAmountsByDestinationProtocolID", "DispatchedCountsBySourceProtocolID", "DispatchedCountsByDestinationProtocolID"} {
		for _, pn := range []string{"PROTOCOL_IBC", "PROTOCOL_CCTP", "PROTOCOL_HYPERLANE", "PROTOCOL_INTERNAL"} {
			for _, rev := range []bool{false, true} {
				rows, pr, err := w.qList(ctx, rpc, pn, &query.PageRequest{Limit: 1000, Reverse: rev, CountTotal: true})
				var tot uint64
				if pr != nil {
					tot = pr.Total
				}
				fmt.Fprintf(&b, "%s(%s,%v)=%v total=%d err=%v;", rpc, pn, rev, rows, tot, err)
			}
		}
	}
	g := w.App.OrbiterKeeper.ExportGenesis(ctx).DispatcherGenesis
	for i := range g.DispatchedAmounts {
		e := &g.DispatchedAmounts[i]
		in, out, found, err := w.QDispatchedAmount(ctx, protoNameOf[int(e.SourceId.ProtocolId)], e.SourceId.CounterpartyId, protoNameOf[int(e.DestinationId.ProtocolId)], e.DestinationId.CounterpartyId, e.Denom)
		fmt.Fprintf(&b, "direct(%s)=%s/%s,%v,%v;", amtRowOf(e).key(), in, out, found, err)
	}
	for i := range g.DispatchedCounts {
		e := &g.DispatchedCounts[i]
		n, found, err := w.QDispatchedCount(ctx, protoNameOf[int(e.SourceId.ProtocolId)], e.SourceId.CounterpartyId, protoNameOf[int(e.DestinationId.ProtocolId)], e.DestinationId.CounterpartyId)
		fmt.Fprintf(&b, "directc(%s)=%d,%v,%v;", cntRowOf(e).key(), n, found, err)
	}
	return b.String()
}


// c17JSONDocuments: hand-written genesis FILES. The exported genesis of a rich state, as the JSON text the codec
// writes, under every single-point mutation of its tree (member deleted / duplicated / renamed, value replaced by
// null, numbers, strings, lists, objects, other enum spellings, huge integers, NUL bytes …): what `validate-genesis`
// and InitChain would be given by an operator editing the file. For each document the module's ValidateGenesis must
// return a verdict (never panic); if it accepts, InitGenesis on an empty store must succeed and the state must
// round-trip. (thorough: the mutations are applied to two base documents.)
func c17JSONDocuments(rep *Report, worlds []*World, full bool) {
	w0 := worlds[0]
	om0, err := w0.orbiterModule()
	if err != nil {
		rep.HarnessError("%v", err)
		return
	}
	// base states: a short history with every kind of entry
	mkBase := func(ops []Op) (string, bool) {
		b := Branch(w0.Ctx)
		for _, op := range ops {
			w0.Apply(b, op)
		}
		return string(om0.ExportGenesis(b, w0.App.appCodec)), true
	}
	orb := w0.Orb.String()
	bases := [][]Op{{
		w0.OpPauseProtocol("PROTOCOL_HYPERLANE"), w0.OpPauseCC("PROTOCOL_CCTP", "1"), w0.OpPauseAction("ACTION_SWAP"), w0.OpUpdateParams(64),
		w0.OpRecv("t(cctp0,fee)", TransferSpec{"channel-0", denomUSDC, "10000", orb, w0.FwdCCTP(0), []FeeSpec{{To: w0.Fee1.String(), Bps: 100}}}.Pkt()),
	}}
	if full {
		bases = append(bases, []Op{
			w0.OpPauseCC("PROTOCOL_INTERNAL", "vault"), w0.OpPauseCC("PROTOCOL_HYPERLANE", "7", "8"),
			w0.OpRecv("t(internal,uother)", TransferSpec{"channel-1", denomOTH, "42", orb, w0.FwdInternal(w0.Bob), nil}.Pkt()),
			w0.OpRecv("t(hyp1)", TransferSpec{"channel-1", denomUSDC, "777", orb, w0.FwdHyp(1), nil}.Pkt()),
		})
	}
	enumNames := []string{"PROTOCOL_UNSUPPORTED", "PROTOCOL_IBC", "PROTOCOL_CCTP", "PROTOCOL_HYPERLANE", "PROTOCOL_INTERNAL", "PROTOCOL_FOO", "ACTION_UNSUPPORTED", "ACTION_FEE", "ACTION_SWAP", "ACTION_FOO"}
	type jdoc struct{ label, text string }
	var docs []jdoc
	for bi, ops := range bases {
		text, _ := mkBase(ops)
		root, err := jparse(text)
		if err != nil {
			rep.HarnessError("exported genesis is not parseable JSON: %v", err)
			return
		}
		docs = append(docs, jdoc{fmt.Sprintf("base%d unmodified", bi), text})
		for _, m := range SingleMutations(root, nil, enumNames) {
			if t, ok := applyMutations(root, m); ok {
				docs = append(docs, jdoc{fmt.Sprintf("base%d: %s", bi, m.Name), t})
			}
		}
	}
	rep.Extra["json_documents"] = len(docs)
	parallelFor(worlds, len(docs), func(w *World, i int) {
		d := docs[i]
		om, err := w.orbiterModule()
		if err != nil {
			rep.HarnessError("%v", err)
			return
		}
		rep.Count("evaluations", 1)
		sig := "json " + trunc(d.label, 200)
		replay := mustJSON(map[string]any{"genesis": json.RawMessage(d.text)})
		if !json.Valid([]byte(d.text)) {
			replay = mustJSON(map[string]any{"genesis_text": d.text})
		}
		var verr error
		var vpan any
		func() {
			defer func() { vpan = recover() }()
			verr = om.ValidateGenesis(w.App.appCodec, nil, json.RawMessage(d.text))
		}()
		if vpan != nil {
			rep.Outcome("json-doc-validation-panicked")
			rep.Violate(Violation{Kind: "validate-genesis-panics", Group: "json", Sig: sig, Replay: replay,
				What: fmt.Sprintf("ValidateGenesis panicked (%v) on the exported genesis with %s", vpan, trunc(d.label, 200))})
			return
		}
		if verr != nil {
			rep.Outcome("json-doc-rejected")
			return
		}
		rep.Distinct(sig)
		b := Branch(w.Ctx)
		w.wipeOrbiterStore(b)
		var ipan any
		func() {
			defer func() { ipan = recover() }()
			om.InitGenesis(b, w.App.appCodec, json.RawMessage(d.text))
		}()
		if ipan != nil {
			rep.Outcome("json-doc-accepted-but-init-fails")
			rep.Violate(Violation{Kind: "validated-genesis-cannot-be-initialised", Group: "json", Sig: sig, Replay: replay,
				What: fmt.Sprintf("genesis file passes validation but InitGenesis fails: %v  [%s]", ipan, trunc(d.label, 200))})
			return
		}
		// containment: the file as the codec reads it must be what the module exports right after importing it
		var parsed orbtypes.GenesisState
		if err := w.App.appCodec.UnmarshalJSON([]byte(d.text), &parsed); err == nil {
			if problem := docContentProblem(&parsed, w.App.OrbiterKeeper.ExportGenesis(b)); problem != "" {
				rep.Violate(Violation{Kind: "initialised-state-is-not-the-document", Group: "json", Sig: sig, Replay: replay,
					What: fmt.Sprintf("genesis file passes validation and initialises, but the state exported right afterwards is not its content: %s  [%s]", problem, trunc(d.label, 200))})
				return
			}
		}
		if _, _, problem := w.genesisRoundTrip(b); problem != "" {
			rep.Violate(Violation{Kind: "state-from-validated-genesis-does-not-round-trip", Group: "json", Sig: sig, Replay: replay,
				What: fmt.Sprintf("state initialised from a validated genesis file does not round-trip: %s  [%s]", problem, trunc(d.label, 200))})
			return
		}
		rep.Outcome("json-doc-accepted-and-initialised")
	})
	rep.Guard(rep.Outcomes["json-doc-accepted-and-initialised"] > 10 && rep.Outcomes["json-doc-rejected"] > 100, "JSON genesis family vacuous: %v", rep.Outcomes)
}

func sortedKeys[V any](m map[string]V) []string {
	ks := make([]string, 0, len(m))
	for k := range m {
		ks = append(ks, k)
	}
	sort.Strings(ks)
	return ks
}


// docContentProblem compares a genesis document with the export taken right after importing it.
func docContentProblem(doc, exp *orbtypes.GenesisState) string {
	if doc == nil || exp == nil || doc.DispatcherGenesis == nil || exp.DispatcherGenesis == nil || doc.ForwarderGenesis == nil || exp.ForwarderGenesis == nil ||
		doc.ExecutorGenesis == nil || exp.ExecutorGenesis == nil || doc.AdapterGenesis == nil || exp.AdapterGenesis == nil {
		return ""
	}
	if doc.AdapterGenesis.Params.MaxPassthroughPayloadSize != exp.AdapterGenesis.Params.MaxPassthroughPayloadSize {
		return fmt.Sprintf("params %d exported as %d", doc.AdapterGenesis.Params.MaxPassthroughPayloadSize, exp.AdapterGenesis.Params.MaxPassthroughPayloadSize)
	}
	set := func(xs []string) string { s := append([]string{}, xs...); sort.Strings(s); return strings.Join(s, ",") }
	var dp, ep, dc, ec, da, ea []string
	for _, p := range doc.ForwarderGenesis.PausedProtocolIds {
		dp = append(dp, p.String())
	}
	for _, p := range exp.ForwarderGenesis.PausedProtocolIds {
		ep = append(ep, p.String())
	}
	for _, c := range doc.ForwarderGenesis.PausedCrossChainIds {
		if c != nil {
			dc = append(dc, fmt.Sprintf("%d|%q", int32(c.ProtocolId), c.CounterpartyId))
		}
	}
	for _, c := range exp.ForwarderGenesis.PausedCrossChainIds {
		if c != nil {
			ec = append(ec, fmt.Sprintf("%d|%q", int32(c.ProtocolId), c.CounterpartyId))
		}
	}
	for _, a := range doc.ExecutorGenesis.PausedActionIds {
		da = append(da, a.String())
	}
	for _, a := range exp.ExecutorGenesis.PausedActionIds {
		ea = append(ea, a.String())
	}
	if set(dp) != set(ep) {
		return fmt.Sprintf("paused protocols %v exported as %v", dp, ep)
	}
	if set(dc) != set(ec) {
		return fmt.Sprintf("paused cross-chains %v exported as %v", dc, ec)
	}
	if set(da) != set(ea) {
		return fmt.Sprintf("paused actions %v exported as %v", da, ea)
	}
	idOf := func(c *core.CrossChainID) string {
		if c == nil {
			return "nil"
		}
		return fmt.Sprintf("%d|%q", int32(c.ProtocolId), c.CounterpartyId)
	}
	docA, expA := map[string][]string{}, map[string]string{}
	for _, e := range doc.DispatcherGenesis.DispatchedAmounts {
		if e.AmountDispatched.Incoming.IsNil() || e.AmountDispatched.Outgoing.IsNil() || (e.AmountDispatched.Incoming.IsZero() && e.AmountDispatched.Outgoing.IsZero()) {
			continue
		}
		k := idOf(e.SourceId) + ">" + idOf(e.DestinationId) + "/" + e.Denom
		docA[k] = append(docA[k], e.AmountDispatched.Incoming.String()+"/"+e.AmountDispatched.Outgoing.String())
	}
	for _, e := range exp.DispatcherGenesis.DispatchedAmounts {
		expA[idOf(e.SourceId)+">"+idOf(e.DestinationId)+"/"+e.Denom] = e.AmountDispatched.Incoming.String() + "/" + e.AmountDispatched.Outgoing.String()
	}
	for k, vs := range docA {
		got, ok := expA[k]
		match := false
		for _, v := range vs {
			if v == got {
				match = true
			}
		}
		if !ok || !match {
			return fmt.Sprintf("statistics entry %s = %v is exported as %q (present=%v); exported amounts: %d entries", k, vs, got, ok, len(expA))
		}
	}
	for k := range expA {
		if _, ok := docA[k]; !ok && expA[k] != "0/0" {
			return fmt.Sprintf("the export contains a statistics entry %s = %s the document does not have", k, expA[k])
		}
	}
	docC, expC := map[string][]uint64{}, map[string]uint64{}
	for _, e := range doc.DispatcherGenesis.DispatchedCounts {
		if e.Count == 0 {
			continue
		}
		k := idOf(e.SourceId) + ">" + idOf(e.DestinationId)
		docC[k] = append(docC[k], e.Count)
	}
	for _, e := range exp.DispatcherGenesis.DispatchedCounts {
		expC[idOf(e.SourceId)+">"+idOf(e.DestinationId)] = e.Count
	}
	for k, vs := range docC {
		got, ok := expC[k]
		match := false
		for _, v := range vs {
			if v == got {
				match = true
			}
		}
		if !ok || !match {
			return fmt.Sprintf("count entry %s = %v is exported as %d (present=%v)", k, vs, got, ok)
		}
	}
	for k := range expC {
		if _, ok := docC[k]; !ok && expC[k] != 0 {
			return fmt.Sprintf("the export contains a count entry %s = %d the document does not have", k, expC[k])
		}
	}
	return ""
}
