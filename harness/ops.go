package simapp

// ops.go — the operation alphabet (DESIGN §1.4): Recv / Msg / Deposit / Env with the two emulated
// envelopes of §1.3 (IBC core's discard-on-error, baseapp's per-message rollback), observations
// (ack bytes, events, ledger snapshot, store hash) and state keys.

import (
	"bytes"
	"crypto/sha256"
	"encoding/hex"
	"encoding/json"
	"fmt"
	"runtime/debug"
	"sort"
	"strings"

	"cosmossdk.io/math"
	"github.com/cosmos/cosmos-sdk/baseapp"
	edkeys "github.com/cosmos/cosmos-sdk/crypto/keys/ed25519"
	sdk "github.com/cosmos/cosmos-sdk/types"
	banktypes "github.com/cosmos/cosmos-sdk/x/bank/types"
	transfertypes "github.com/cosmos/ibc-go/v8/modules/apps/transfer/types"
	clienttypes "github.com/cosmos/ibc-go/v8/modules/core/02-client/types"
	channeltypes "github.com/cosmos/ibc-go/v8/modules/core/04-channel/types"
	porttypes "github.com/cosmos/ibc-go/v8/modules/core/05-port/types"
)

func ed25519FromSecret(s string) *edkeys.PrivKey { return edkeys.GenPrivKeyFromSecret([]byte(s)) }

// ---------------------------------------------------------------------------------------------
// Packets

// Pkt describes one ICS-20 packet delivery. Raw != nil overrides the ICS-20 JSON.
type Pkt struct {
	SrcPort, SrcChan string `json:",omitempty"`
	DstPort, DstChan string `json:",omitempty"`
	Denom, Amount    string
	Sender, Receiver string
	Memo             string
	Raw              []byte `json:",omitempty"`
}

const defaultSender = "cosmos1hr9x0sjvel6z3vt9qny8sdd5gnnlgk0p69d6cv"

// counterparty channel of our channel-N (channel-0 <-> channel-7, channel-1 <-> channel-9)
func counterpartyChan(dst string) string {
	switch dst {
	case "channel-0":
		return "channel-7"
	case "channel-1":
		return "channel-9"
	}
	return "channel-7"
}

// NewPkt builds a packet returning `base` (a Noble-native denom) over dstChan.
func NewPkt(dstChan, base, amount, receiver, memo string) Pkt {
	src := counterpartyChan(dstChan)
	return Pkt{SrcPort: "transfer", SrcChan: src, DstPort: "transfer", DstChan: dstChan,
		Denom: "transfer/" + src + "/" + base, Amount: amount, Sender: defaultSender, Receiver: receiver, Memo: memo}
}

func (p Pkt) Data() []byte {
	if p.Raw != nil {
		return p.Raw
	}
	d := transfertypes.FungibleTokenPacketData{Denom: p.Denom, Amount: p.Amount, Sender: p.Sender, Receiver: p.Receiver, Memo: p.Memo}
	return d.GetBytes()
}

func (p Pkt) Packet() channeltypes.Packet {
	sp, sc, dp, dc := p.SrcPort, p.SrcChan, p.DstPort, p.DstChan
	return channeltypes.NewPacket(p.Data(), 1, sp, sc, dp, dc, clienttypes.NewHeight(1, 1000), 0)
}

func (p Pkt) String() string {
	if p.Raw != nil {
		return fmt.Sprintf("raw[%s->%s]%q", p.SrcChan, p.DstChan, string(p.Raw))
	}
	return fmt.Sprintf("pkt[%s/%s->%s/%s denom=%s amt=%s rcv=%s memo=%s]", p.SrcPort, p.SrcChan, p.DstPort, p.DstChan, p.Denom, p.Amount, p.Receiver, p.Memo)
}

// ---------------------------------------------------------------------------------------------
// Recv with IBC core's envelope (ibc-go v8.6.1 core/keeper/msg_server.go:RecvPacket):
//   cacheCtx, writeFn := ctx.CacheContext(); ack := cb.OnRecvPacket(cacheCtx, ...);
//   if ack == nil || ack.Success() { writeFn() } else { events of cacheCtx are emitted w/ prefix }

type Event struct {
	Type  string
	Attrs [][2]string
}

type RecvResult struct {
	Ack       []byte
	Success   bool
	NilAck    bool
	Panic     string // non-empty: the callback panicked (value + first stack lines)
	PanicType string // Go type of the panic value (out-of-gas is recognised by type, not by text)
	Events    []Event
	Written   bool
}

func (r RecvResult) AckErr() string {
	var a struct {
		Error string `json:"error"`
	}
	_ = json.Unmarshal(r.Ack, &a)
	return a.Error
}

func convEvents(evs sdk.Events) []Event {
	out := make([]Event, 0, len(evs))
	for _, e := range evs {
		ev := Event{Type: e.Type}
		for _, a := range e.Attributes {
			ev.Attrs = append(ev.Attrs, [2]string{a.Key, a.Value})
		}
		out = append(out, ev)
	}
	return out
}

// RecvOn delivers p to the given stack on ctx with the discard-on-error envelope. ctx is mutated
// (through its own multistore) only if the acknowledgement is nil or successful.
func RecvOn(stack porttypes.IBCModule, ctx sdk.Context, p Pkt) (res RecvResult) {
	cctx, write := ctx.CacheContext()
	func() {
		defer func() {
			if r := recover(); r != nil {
				st := strings.Split(string(debug.Stack()), "\n")
				keep := []string{}
				after := false
				for _, l := range st {
					if strings.HasPrefix(l, "panic(") {
						after = true
						continue
					}
					if !after || strings.HasPrefix(l, "\t") || strings.HasPrefix(l, "runtime.") {
						continue
					}
					if i := strings.LastIndex(l, "("); i > 0 {
						l = l[:i]
					}
					if i := strings.LastIndex(l, "/"); i > 0 {
						l = l[i+1:]
					}
					keep = append(keep, l)
					if len(keep) >= 8 {
						break
					}
				}
				res.Panic = fmt.Sprintf("%v | %s", r, strings.Join(keep, " <- "))
				res.PanicType = fmt.Sprintf("%T", r)
			}
		}()
		ack := stack.OnRecvPacket(cctx, p.Packet(), nil)
		if ack == nil {
			res.NilAck = true
			res.Success = true
			return
		}
		res.Ack = ack.Acknowledgement()
		res.Success = ack.Success()
	}()
	res.Events = convEvents(cctx.EventManager().Events())
	if res.Panic == "" && res.Success {
		write()
		res.Written = true
	}
	return res
}

// Recv delivers on the application's own stack — or, for worlds switched to the instrumented stand
// (UseInstr), on the harness-built replica with decorated dependencies.
func (w *World) Recv(ctx sdk.Context, p Pkt) RecvResult {
	if w.UseInstr != nil {
		w.UseInstr.Rec.Reset(nil, "")
		return RecvOn(w.UseInstr.Stack, ctx, p)
	}
	return RecvOn(w.Stack, ctx, p)
}

// ---------------------------------------------------------------------------------------------
// Msg with baseapp's per-message envelope (runTx: cache the multistore, write only on success).

type MsgResult struct {
	Err    string
	OK     bool
	Panic  string
	Resp   []byte
	Events []Event
}

func (w *World) Msg(ctx sdk.Context, msg sdk.Msg) (res MsgResult) {
	return MsgVia(w.App.MsgServiceRouter(), ctx, msg)
}

// MsgVia: one message through the handler a Msg service router resolves for it, with the per-message envelope of §1.3(2).
func MsgVia(router *baseapp.MsgServiceRouter, ctx sdk.Context, msg sdk.Msg) (res MsgResult) {
	h := router.Handler(msg)
	if h == nil {
		res.Err = fmt.Sprintf("no handler for %T", msg)
		return
	}
	cctx, write := ctx.CacheContext()
	func() {
		defer func() {
			if r := recover(); r != nil {
				res.Panic = fmt.Sprintf("%v", r)
			}
		}()
		r, err := h(cctx, msg)
		if err != nil {
			res.Err = err.Error()
			return
		}
		res.OK = true
		if r != nil && len(r.MsgResponses) > 0 {
			res.Resp = r.MsgResponses[0].Value
		}
	}()
	res.Events = convEvents(cctx.EventManager().Events())
	if res.OK && res.Panic == "" {
		write()
	}
	return
}

// Deposit: alice bank-sends coins straight to an address (through the bank Msg server).
func (w *World) Deposit(ctx sdk.Context, to sdk.AccAddress, denom string, amt int64) error {
	r := w.Msg(ctx, &banktypes.MsgSend{FromAddress: w.Alice.String(), ToAddress: to.String(), Amount: sdk.NewCoins(sdk.NewCoin(denom, math.NewInt(amt)))})
	if !r.OK {
		return fmt.Errorf("deposit failed: %s %s", r.Err, r.Panic)
	}
	return nil
}

// Branch returns a copy-on-write child of ctx that is never written back.
func Branch(ctx sdk.Context) sdk.Context {
	c, _ := ctx.CacheContext()
	return c
}

// ---------------------------------------------------------------------------------------------
// State keys and store dumps

// StateKey: SHA-256 over every (store, key, value) of every KV store. Exact: equal keys = equal states.
func (w *World) StateKey(ctx sdk.Context) string {
	h := sha256.New()
	ks := w.App.kvStoreKeys()
	var lenbuf [8]byte
	put := func(b []byte) {
		n := len(b)
		for i := 0; i < 8; i++ {
			lenbuf[i] = byte(n >> (8 * i))
		}
		h.Write(lenbuf[:])
		h.Write(b)
	}
	for _, name := range w.kvStoreNames() {
		put([]byte(name))
		it := ctx.KVStore(ks[name]).Iterator(nil, nil)
		for ; it.Valid(); it.Next() {
			put(it.Key())
			put(it.Value())
		}
		it.Close()
	}
	return hex.EncodeToString(h.Sum(nil)[:16])
}

// StoreKeyOf hashes one module's store only.
func (w *World) StoreKeyOf(ctx sdk.Context, name string) string {
	h := sha256.New()
	k := w.App.kvStoreKeys()[name]
	it := ctx.KVStore(k).Iterator(nil, nil)
	defer it.Close()
	var lenbuf [8]byte
	for ; it.Valid(); it.Next() {
		for _, b := range [][]byte{it.Key(), it.Value()} {
			n := len(b)
			for i := 0; i < 8; i++ {
				lenbuf[i] = byte(n >> (8 * i))
			}
			h.Write(lenbuf[:])
			h.Write(b)
		}
	}
	return hex.EncodeToString(h.Sum(nil)[:16])
}

// DumpStore returns a hex map of one module store (diagnostics / diffs in replays).
func (w *World) DumpStore(ctx sdk.Context, name string) map[string]string {
	m := map[string]string{}
	k := w.App.kvStoreKeys()[name]
	it := ctx.KVStore(k).Iterator(nil, nil)
	defer it.Close()
	for ; it.Valid(); it.Next() {
		m[hex.EncodeToString(it.Key())] = hex.EncodeToString(it.Value())
	}
	return m
}

// DiffStores lists "store/keyhex" entries that differ between two contexts.
func (w *World) DiffStores(a, b sdk.Context) []string {
	var out []string
	for _, name := range w.kvStoreNames() {
		da, db := w.DumpStore(a, name), w.DumpStore(b, name)
		for k, v := range da {
			if db[k] != v {
				out = append(out, name+"/"+k)
			}
		}
		for k := range db {
			if _, ok := da[k]; !ok {
				out = append(out, name+"/"+k)
			}
		}
	}
	sort.Strings(out)
	return out
}

// ---------------------------------------------------------------------------------------------
// Ledger snapshot: ALL bank balances (iterating the bank store, not a list of known accounts) + supply.

type Ledger struct {
	Bal    map[string]map[string]math.Int // address -> denom -> amount
	Supply map[string]math.Int
}

func (w *World) Snapshot(ctx sdk.Context) Ledger {
	l := Ledger{Bal: map[string]map[string]math.Int{}, Supply: map[string]math.Int{}}
	w.App.BankKeeper.IterateAllBalances(ctx, func(addr sdk.AccAddress, c sdk.Coin) bool {
		a := addr.String()
		if l.Bal[a] == nil {
			l.Bal[a] = map[string]math.Int{}
		}
		l.Bal[a][c.Denom] = c.Amount
		return false
	})
	w.App.BankKeeper.IterateTotalSupply(ctx, func(c sdk.Coin) bool {
		l.Supply[c.Denom] = c.Amount
		return false
	})
	return l
}

func (l Ledger) Get(addr sdk.AccAddress, denom string) math.Int {
	if m, ok := l.Bal[addr.String()]; ok {
		if v, ok := m[denom]; ok {
			return v
		}
	}
	return math.ZeroInt()
}

// Delta: after - before, as "addr|denom" -> signed big integer string; zero entries dropped.
type Delta map[string]string

func LedgerDelta(before, after Ledger) (bal Delta, supply Delta) {
	bal, supply = Delta{}, Delta{}
	seen := map[string]bool{}
	for a, m := range before.Bal {
		for d := range m {
			seen[a+"|"+d] = true
		}
	}
	for a, m := range after.Bal {
		for d := range m {
			seen[a+"|"+d] = true
		}
	}
	for k := range seen {
		parts := strings.SplitN(k, "|", 2)
		b, a := math.ZeroInt(), math.ZeroInt()
		if v, ok := before.Bal[parts[0]][parts[1]]; ok {
			b = v
		}
		if v, ok := after.Bal[parts[0]][parts[1]]; ok {
			a = v
		}
		if !a.Equal(b) {
			bal[k] = a.BigInt().Sub(a.BigInt(), b.BigInt()).String()
		}
	}
	ds := map[string]bool{}
	for d := range before.Supply {
		ds[d] = true
	}
	for d := range after.Supply {
		ds[d] = true
	}
	for d := range ds {
		b, a := math.ZeroInt(), math.ZeroInt()
		if v, ok := before.Supply[d]; ok {
			b = v
		}
		if v, ok := after.Supply[d]; ok {
			a = v
		}
		if !a.Equal(b) {
			supply[d] = a.BigInt().Sub(a.BigInt(), b.BigInt()).String()
		}
	}
	return
}

func (d Delta) String() string {
	ks := make([]string, 0, len(d))
	for k := range d {
		ks = append(ks, k)
	}
	sort.Strings(ks)
	var b bytes.Buffer
	for i, k := range ks {
		if i > 0 {
			b.WriteString(", ")
		}
		b.WriteString(k + ":" + d[k])
	}
	return "{" + b.String() + "}"
}

func (d Delta) Equal(o Delta) bool {
	if len(d) != len(o) {
		return false
	}
	for k, v := range d {
		if o[k] != v {
			return false
		}
	}
	return true
}
