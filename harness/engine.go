package simapp

// engine.go — E1: explicit-state, level-synchronised breadth-first explorer over the REAL application.
// A node is the operation path that reaches it; a worker re-derives the node's state on its own
// application instance by replaying the path from W0 on copy-on-write branches (depth × ≈0.5 ms), then
// applies every operation of the prefix alphabet on a fresh branch (successor = parent + one op) and
// the whole probe alphabet through the OnState callback. States are de-duplicated by the exact
// SHA-256 of all KV stores (DESIGN §2/E1).

import (
	"fmt"
	"os"
	"runtime"
	"sort"
	"strconv"
	"sync"
	"sync/atomic"
	"time"

	sdk "github.com/cosmos/cosmos-sdk/types"
)

// OpResult is what applying an Op observed.
type OpResult struct {
	Recv *RecvResult `json:",omitempty"`
	Msg  *MsgResult  `json:",omitempty"`
	Err  string      `json:",omitempty"`
}

func (r OpResult) Succeeded() bool {
	if r.Recv != nil {
		return r.Recv.Written
	}
	if r.Msg != nil {
		return r.Msg.OK && r.Msg.Panic == ""
	}
	return r.Err == ""
}

// Op is a serialisable operation (so that violations are replayable artefacts).
type Op struct {
	Label   string   `json:"label"`
	Pkt     *Pkt     `json:"pkt,omitempty"`
	Msg     *MsgSpec `json:"msg,omitempty"`
	Deposit *DepSpec `json:"deposit,omitempty"`
	Env     string   `json:"env,omitempty"`
}

type DepSpec struct {
	To    string
	Denom string
	Amt   int64
}

func (o Op) String() string { return o.Label }

// Apply executes the op on ctx (mutating it through the appropriate envelope).
func (w *World) Apply(ctx sdk.Context, o Op) OpResult {
	switch {
	case o.Pkt != nil:
		r := w.Recv(ctx, *o.Pkt)
		return OpResult{Recv: &r}
	case o.Msg != nil:
		m, err := o.Msg.Build()
		if err != nil {
			return OpResult{Err: err.Error()}
		}
		r := w.Msg(ctx, m)
		return OpResult{Msg: &r}
	case o.Deposit != nil:
		to, err := sdk.AccAddressFromBech32(o.Deposit.To)
		if err != nil {
			return OpResult{Err: err.Error()}
		}
		if err := w.Deposit(ctx, to, o.Deposit.Denom, o.Deposit.Amt); err != nil {
			return OpResult{Err: err.Error()}
		}
		return OpResult{}
	case o.Env != "":
		if err := w.ApplyEnv(ctx, o.Env); err != nil {
			return OpResult{Err: err.Error()}
		}
		return OpResult{}
	}
	return OpResult{Err: "empty op"}
}

// Node of the exploration: the op path from W0.
type Node struct {
	Path []int
}

func (n Node) Ops(alpha []Op) []Op {
	out := make([]Op, len(n.Path))
	for i, k := range n.Path {
		out[i] = alpha[k]
	}
	return out
}

// Explorer configuration.
type Explorer struct {
	Rep     *Report
	Prefix  []Op
	Depth   int // maximum path length (0 = only W0); <0 = run to fixpoint
	Workers int
	Budget  time.Duration // soft wall budget; on expiry exploration stops, exhaustive=false

	// Model hooks (all optional). The model value must be treated as immutable; Step returns a new one.
	ModelInit func(w *World) any
	ModelStep func(w *World, model any, op Op, res OpResult, pre, post sdk.Context) any

	// OnTransition is called for every executed transition parent --op--> child (child ctx is post state).
	OnTransition func(wk *Worker, n Node, op Op, res OpResult, pre, post sdk.Context, preModel, postModel any)
	// OnState is called once per distinct state, with a context standing on that state (branch before mutating!).
	OnState func(wk *Worker, n Node, ctx sdk.Context, model any)
	// Revisit: OnState is ALSO called on every arrival at an already known state through another path (the
	// differential "state reached from elsewhere" oracle): the store contents are identical by construction of the
	// key, so any difference in behaviour comes from state the key cannot see (process-local caches and flags in the
	// keepers), which the lock-step model judges exactly as on the first visit.
	Revisit bool
}

type Worker struct {
	ID int
	W  *World
	X  *Explorer
}

func numWorkers() int {
	if s := os.Getenv("VERIF_WORKERS"); s != "" {
		if n, err := strconv.Atoi(s); err == nil && n > 0 {
			return n
		}
	}
	n := runtime.NumCPU()
	if n > 16 {
		n = 16
	}
	if n < 1 {
		n = 1
	}
	return n
}

// buildWorlds creates n independent application instances in parallel.
func buildWorlds(n int) ([]*World, error) {
	ws := make([]*World, n)
	errs := make([]error, n)
	var wg sync.WaitGroup
	for i := 0; i < n; i++ {
		wg.Add(1)
		go func(i int) {
			defer wg.Done()
			ws[i], errs[i] = NewWorld()
		}(i)
	}
	wg.Wait()
	for _, e := range errs {
		if e != nil {
			return nil, e
		}
	}
	return ws, nil
}

// Replay re-derives the state (and model) reached by path on w; returns a branch context standing on it.
func (x *Explorer) Replay(w *World, path []int) (sdk.Context, any) {
	ctx := Branch(w.Ctx)
	var model any
	if x.ModelInit != nil {
		model = x.ModelInit(w)
	}
	for _, k := range path {
		op := x.Prefix[k]
		if x.ModelStep != nil {
			pre := Branch(ctx)
			res := w.Apply(ctx, op)
			model = x.ModelStep(w, model, op, res, pre, ctx)
		} else {
			w.Apply(ctx, op)
		}
	}
	return ctx, model
}

// Run explores; returns the list of all distinct nodes (shortest paths) in BFS order.
func (x *Explorer) Run() []Node {
	if x.Workers <= 0 {
		x.Workers = numWorkers()
	}
	worlds, err := buildWorlds(x.Workers)
	if err != nil {
		x.Rep.HarnessError("fixture construction failed: %v", err)
		return nil
	}
	return x.RunOn(worlds)
}

func (x *Explorer) RunOn(worlds []*World) []Node {
	start := time.Now()
	seen := map[string]struct{}{}
	var seenMu sync.Mutex
	k0 := worlds[0].StateKey(worlds[0].Ctx)
	// all workers must stand on the same W0 (determinism of the fixture)
	for i, w := range worlds {
		if k := w.StateKey(w.Ctx); k != k0 {
			x.Rep.HarnessError("fixture not deterministic: worker %d W0 key %s != %s", i, k, k0)
			return nil
		}
	}
	seen[k0] = struct{}{}
	frontier := []Node{{Path: nil}}
	all := []Node{{Path: nil}}
	var transitions, states int64 = 0, 1
	var revisits int64
	var stopped int32
	maxDepthDone := 0
	for depth := 0; len(frontier) > 0; depth++ {
		expand := x.Depth < 0 || depth < x.Depth
		var next []Node
		var nextMu sync.Mutex
		var idx int64 = -1
		var wg sync.WaitGroup
		for wi := range worlds {
			wg.Add(1)
			go func(wi int) {
				defer wg.Done()
				wk := &Worker{ID: wi, W: worlds[wi], X: x}
				for {
					i := int(atomic.AddInt64(&idx, 1))
					if i >= len(frontier) {
						return
					}
					if x.Budget > 0 && time.Since(start) > x.Budget {
						atomic.StoreInt32(&stopped, 1)
						return
					}
					n := frontier[i]
					ctx, model := x.Replay(wk.W, n.Path)
					if x.OnState != nil {
						x.OnState(wk, n, ctx, model)
					}
					if !expand {
						continue
					}
					for oi, op := range x.Prefix {
						child := Branch(ctx)
						res := wk.W.Apply(child, op)
						var m2 any
						if x.ModelStep != nil {
							m2 = x.ModelStep(wk.W, model, op, res, ctx, child)
						}
						atomic.AddInt64(&transitions, 1)
						if x.OnTransition != nil {
							x.OnTransition(wk, n, op, res, ctx, child, model, m2)
						}
						key := wk.W.StateKey(child)
						seenMu.Lock()
						_, dup := seen[key]
						if !dup {
							seen[key] = struct{}{}
						}
						seenMu.Unlock()
						if !dup {
							atomic.AddInt64(&states, 1)
							p := append(append([]int{}, n.Path...), oi)
							nextMu.Lock()
							next = append(next, Node{Path: p})
							nextMu.Unlock()
						} else if x.Revisit && x.OnState != nil {
							atomic.AddInt64(&revisits, 1)
							x.OnState(wk, Node{Path: append(append([]int{}, n.Path...), oi)}, child, m2)
						}
					}
				}
			}(wi)
		}
		wg.Wait()
		if atomic.LoadInt32(&stopped) == 1 {
			x.Rep.Exhaustive = false
			x.Rep.Extra["stopped_by_budget_at_depth"] = depth
			break
		}
		maxDepthDone = depth
		// Deterministic order of the next level. When two paths reach the same new state in the same
		// level the winner depends on scheduling; both are shortest paths to an identical state.
		sort.Slice(next, func(i, j int) bool { return lessPath(next[i].Path, next[j].Path) })
		all = append(all, next...)
		frontier = next
	}
	x.Rep.Count("states", states)
	x.Rep.Count("transitions", transitions)
	if x.Revisit {
		x.Rep.Count("revisits_probed", revisits)
	}
	x.Rep.Extra["bfs_depth_completed"] = maxDepthDone
	x.Rep.Extra["prefix_alphabet_size"] = len(x.Prefix)
	x.Rep.Extra["workers"] = len(worlds)
	return all
}

func lessPath(a, b []int) bool {
	for i := 0; i < len(a) && i < len(b); i++ {
		if a[i] != b[i] {
			return a[i] < b[i]
		}
	}
	return len(a) < len(b)
}

func pathLabels(alpha []Op, path []int) []string {
	out := make([]string, len(path))
	for i, k := range path {
		out[i] = alpha[k].Label
	}
	return out
}

// parallelFor runs f(i) for i in [0,n) over the worlds (one goroutine per world).
func parallelFor(worlds []*World, n int, f func(w *World, i int)) {
	var idx int64 = -1
	var wg sync.WaitGroup
	for wi := range worlds {
		wg.Add(1)
		go func(w *World) {
			defer wg.Done()
			for {
				i := int(atomic.AddInt64(&idx, 1))
				if i >= n {
					return
				}
				f(w, i)
			}
		}(worlds[wi])
	}
	wg.Wait()
}

func mustJSON(v any) []byte {
	b, err := jsonMarshal(v)
	if err != nil {
		return []byte(fmt.Sprintf("%q", err.Error()))
	}
	return b
}

// budgetFromEnv: soft exploration budget in minutes (VERIF_BUDGET_MIN overrides the default).
func budgetFromEnv(defMin int) time.Duration {
	if s := os.Getenv("VERIF_BUDGET_MIN"); s != "" {
		if n, err := strconv.Atoi(s); err == nil && n > 0 {
			return time.Duration(n) * time.Minute
		}
	}
	return time.Duration(defMin) * time.Minute
}
