package simapp

// engine.go — E1: explicit-state, level-synchronised breadth-first explorer over the REAL application.
// A node is the operation path that reaches it; a worker re-derives the node's state on its own
// application instance by replaying the path from W0 on copy-on-write branches (depth × ≈0.5 ms), then
// applies every operation of the prefix alphabet on a fresh branch (successor = parent + one op) and
// the whole probe alphabet through the OnState callback. States are de-duplicated by the exact
// SHA-256 of all KV stores (DESIGN §2/E1).

import (
	"fmt"
	"os"
	"runtime"
	"sort"
	"strconv"
	"sync"
	"sync/atomic"
	"time"

	sdk "github.com/cosmos/cosmos-sdk/types"
)

// OpResult is what applying an Op observed.
type OpResult struct {
	Recv *RecvResult `json:",omitempty"`
	Msg  *MsgResult  `json:",omitempty"`
	Err  string      `json:",omitempty"`
}

func (r OpResult) Succeeded() bool {
	if r.Recv != nil {
		return r.Recv.Written
	}
	if r.Msg != nil {
		return r.Msg.OK && r.Msg.Panic == ""
	}
	return r.Err == ""
}

// Op is a serialisable operation (so that violations are replayable artefacts).
type Op struct {
	Label   string   `json:"label"`
	Pkt     *Pkt     `json:"pkt,omitempty"`
	Msg     *MsgSpec `json:"msg,omitempty"`
	Deposit *DepSpec `json:"deposit,omitempty"`
	Env     string   `json:"env,omitempty"`
}

type DepSpec struct {
	To    string
	Denom string
	Amt   int64
}

func (o Op) String() string { return o.Label }

// Apply executes the op on ctx (mutating it through the appropriate envelope).
func (w *World) Apply(ctx sdk.Context, o Op) OpResult {
	switch {
	case o.Pkt != nil:
		r := w.Recv(ctx, *o.Pkt)
		return OpResult{Recv: &r}
	case o.Msg != nil:
		m, err := o.Msg.Build()
		if err != nil {
			return OpResult{Err: err.Error()}
		}
		r := w.Msg(ctx, m)
		return OpResult{Msg: &r}
	case o.Deposit != nil:
		to, err := sdk.AccAddressFromBech32(o.Deposit.To)
		if err != nil {
			return OpResult{Err: err.Error()}
		}
		if err := w.Deposit(ctx, to, o.Deposit.Denom, o.Deposit.Amt); err != nil {
			return OpResult{Err: err.Error()}
		}
		return OpResult{}
	case o.Env != "":
		if err := w.ApplyEnv(ctx, o.Env); err != nil {
			return OpResult{Err: err.Error()}
		}
		return OpResult{}
	}
	return OpResult{Err: "empty op"}
}

// Node of the exploration: the op path from W0.
type Node struct {
	Path []int
}

func (n Node) Ops(alpha []Op) []Op {
	out := make([]Op, len(n.Path))
	for i, k := range n.Path {
		out[i] = alpha[k]
	}
	return out
}

// Explorer configuration.
type Explorer struct {
	Rep     *Report
	Prefix  []Op
	Depth   int // maximum path length (0 = only W0); <0 = run to fixpoint
	Workers int
	Budget  time.Duration // soft wall budget; on expiry exploration stops, exhaustive=false

	// Model hooks (all optional). The model value must be treated as immutable; Step returns a new one.
	ModelInit func(w *World) any
	ModelStep func(w *World, model any, op Op, res OpResult, pre, post sdk.Context) any

	// OnTransition is called for every executed transition parent --op--> child (child ctx is post state).
	OnTransition func(wk *Worker, n Node, op Op, res OpResult, pre, post sdk.Context, preModel, postModel any)
	// OnState is called once per distinct state, with a context standing on that state (branch before mutating!).
	OnState func(wk *Worker, n Node, ctx sdk.Context, model any)
	// Revisit: OnState is ALSO called on every arrival at an already known state through another path (the
	// differential "state reached from elsewhere" oracle): the store contents are identical by construction of the
	// key, so any difference in behaviour comes from state the key cannot see (process-local caches and flags in the
	// keepers), which the lock-step model judges exactly as on the first visit.
	Revisit bool

	// graph of the exploration (state key -> successor key per operation index); recorded when RecordGraph is set,
	// used by Tour
	RecordGraph bool
	PrepWorld   func(w *World) error // called by Tour for every fresh instance (e.g. to attach an instrumented stand)
	graph       map[string][]string
	graphMu     sync.Mutex
	k0          string
}

type Worker struct {
	ID int
	W  *World
	X  *Explorer
}

func numWorkers() int {
	if s := os.Getenv("VERIF_WORKERS"); s != "" {
		if n, err := strconv.Atoi(s); err == nil && n > 0 {
			return n
		}
	}
	n := runtime.NumCPU()
	if n > 16 {
		n = 16
	}
	if n < 1 {
		n = 1
	}
	return n
}

// buildWorlds creates n independent application instances in parallel.
func buildWorlds(n int) ([]*World, error) {
	ws := make([]*World, n)
	errs := make([]error, n)
	var wg sync.WaitGroup
	for i := 0; i < n; i++ {
		wg.Add(1)
		go func(i int) {
			defer wg.Done()
			ws[i], errs[i] = NewWorld()
		}(i)
	}
	wg.Wait()
	for _, e := range errs {
		if e != nil {
			return nil, e
		}
	}
	return ws, nil
}

// Replay re-derives the state (and model) reached by path on w; returns a branch context standing on it.
func (x *Explorer) Replay(w *World, path []int) (sdk.Context, any) {
	ctx := Branch(w.Ctx)
	var model any
	if x.ModelInit != nil {
		model = x.ModelInit(w)
	}
	for _, k := range path {
		op := x.Prefix[k]
		if x.ModelStep != nil {
			pre := Branch(ctx)
			res := w.Apply(ctx, op)
			model = x.ModelStep(w, model, op, res, pre, ctx)
		} else {
			w.Apply(ctx, op)
		}
	}
	return ctx, model
}

// Run explores; returns the list of all distinct nodes (shortest paths) in BFS order.
func (x *Explorer) Run() []Node {
	if x.Workers <= 0 {
		x.Workers = numWorkers()
	}
	worlds, err := buildWorlds(x.Workers)
	if err != nil {
		x.Rep.HarnessError("fixture construction failed: %v", err)
		return nil
	}
	return x.RunOn(worlds)
}

func (x *Explorer) RunOn(worlds []*World) []Node {
	start := time.Now()
	seen := map[string]struct{}{}
	var seenMu sync.Mutex
	k0 := worlds[0].StateKey(worlds[0].Ctx)
	// all workers must stand on the same W0 (determinism of the fixture)
	for i, w := range worlds {
		if k := w.StateKey(w.Ctx); k != k0 {
			x.Rep.HarnessError("fixture not deterministic: worker %d W0 key %s != %s", i, k, k0)
			return nil
		}
	}
	seen[k0] = struct{}{}
	x.k0 = k0
	frontier := []Node{{Path: nil}}
	all := []Node{{Path: nil}}
	var transitions, states int64 = 0, 1
	var revisits int64
	var stopped int32
	maxDepthDone := 0
	for depth := 0; len(frontier) > 0; depth++ {
		expand := x.Depth < 0 || depth < x.Depth
		var next []Node
		var nextMu sync.Mutex
		var idx int64 = -1
		var wg sync.WaitGroup
		for wi := range worlds {
			wg.Add(1)
			go func(wi int) {
				defer wg.Done()
				wk := &Worker{ID: wi, W: worlds[wi], X: x}
				for {
					i := int(atomic.AddInt64(&idx, 1))
					if i >= len(frontier) {
						return
					}
					if x.Budget > 0 && time.Since(start) > x.Budget {
						atomic.StoreInt32(&stopped, 1)
						return
					}
					n := frontier[i]
					ctx, model := x.Replay(wk.W, n.Path)
					var succ []string
					var parentKey string
					if x.RecordGraph {
						parentKey = wk.W.StateKey(ctx)
						succ = make([]string, len(x.Prefix))
					}
					if x.OnState != nil {
						x.OnState(wk, n, ctx, model)
					}
					if !expand {
						continue
					}
					for oi, op := range x.Prefix {
						child := Branch(ctx)
						res := wk.W.Apply(child, op)
						var m2 any
						if x.ModelStep != nil {
							m2 = x.ModelStep(wk.W, model, op, res, ctx, child)
						}
						atomic.AddInt64(&transitions, 1)
						if x.OnTransition != nil {
							x.OnTransition(wk, n, op, res, ctx, child, model, m2)
						}
						key := wk.W.StateKey(child)
						if succ != nil {
							succ[oi] = key
						}
						seenMu.Lock()
						_, dup := seen[key]
						if !dup {
							seen[key] = struct{}{}
						}
						seenMu.Unlock()
						if !dup {
							atomic.AddInt64(&states, 1)
							p := append(append([]int{}, n.Path...), oi)
							nextMu.Lock()
							next = append(next, Node{Path: p})
							nextMu.Unlock()
						} else if x.Revisit && x.OnState != nil {
							atomic.AddInt64(&revisits, 1)
							x.OnState(wk, Node{Path: append(append([]int{}, n.Path...), oi)}, child, m2)
						}
					}
					if succ != nil {
						x.graphMu.Lock()
						if x.graph == nil {
							x.graph = map[string][]string{}
						}
						x.graph[parentKey] = succ
						x.graphMu.Unlock()
					}
				}
			}(wi)
		}
		wg.Wait()
		if atomic.LoadInt32(&stopped) == 1 {
			x.Rep.Exhaustive = false
			x.Rep.Extra["stopped_by_budget_at_depth"] = depth
			break
		}
		maxDepthDone = depth
		// Deterministic order of the next level. When two paths reach the same new state in the same
		// level the winner depends on scheduling; both are shortest paths to an identical state.
		sort.Slice(next, func(i, j int) bool { return lessPath(next[i].Path, next[j].Path) })
		all = append(all, next...)
		frontier = next
	}
	x.Rep.Count("states", states)
	x.Rep.Count("transitions", transitions)
	if x.Revisit {
		x.Rep.Count("revisits_probed", revisits)
	}
	x.Rep.Extra["bfs_depth_completed"] = maxDepthDone
	x.Rep.Extra["prefix_alphabet_size"] = len(x.Prefix)
	x.Rep.Extra["workers"] = len(worlds)
	return all
}

func lessPath(a, b []int) bool {
	for i := 0; i < len(a) && i < len(b); i++ {
		if a[i] != b[i] {
			return a[i] < b[i]
		}
	}
	return len(a) < len(b)
}

func pathLabels(alpha []Op, path []int) []string {
	out := make([]string, len(path))
	for i, k := range path {
		out[i] = alpha[k].Label
	}
	return out
}

// parallelFor runs f(i) for i in [0,n) over the worlds (one goroutine per world).
func parallelFor(worlds []*World, n int, f func(w *World, i int)) {
	var idx int64 = -1
	var wg sync.WaitGroup
	for wi := range worlds {
		wg.Add(1)
		go func(w *World) {
			defer wg.Done()
			for {
				i := int(atomic.AddInt64(&idx, 1))
				if i >= n {
					return
				}
				f(w, i)
			}
		}(worlds[wi])
	}
	wg.Wait()
}

func mustJSON(v any) []byte {
	b, err := jsonMarshal(v)
	if err != nil {
		return []byte(fmt.Sprintf("%q", err.Error()))
	}
	return b
}

// budgetFromEnv: soft exploration budget in minutes (VERIF_BUDGET_MIN overrides the default).
func budgetFromEnv(defMin int) time.Duration {
	if s := os.Getenv("VERIF_BUDGET_MIN"); s != "" {
		if n, err := strconv.Atoi(s); err == nil && n > 0 {
			return time.Duration(n) * time.Minute
		}
	}
	return time.Duration(defMin) * time.Minute
}


// Tour — transition tour on PERSISTENT instances (DESIGN §2/E1b). The breadth-first search re-derives every state by
// replaying its path on copy-on-write branches that are thrown away, and it identifies states by their store contents.
// Both hide state that lives in the process rather than in the stores (caches, flags, lazily built tables inside the
// keepers). After a fixpoint search the reachable graph is finite and known; Tour walks it on fresh application
// instances the way a chain would live through it: ONE linear history per instance, every successful operation's writes
// kept, nothing replayed or discarded, each edge of the graph covered at least once (the edges are partitioned over
// the instances; an instance moves to its next uncovered edge along a shortest path of already explored operations).
// After every step the check's own oracles run — OnTransition on the step, OnState (probes, queries vs the lock-step
// model) on the state reached — and the store contents must be the ones the search found for that edge.
func (x *Explorer) Tour(instances int) {
	if x.graph == nil || len(x.graph) == 0 {
		x.Rep.HarnessError("Tour: no graph recorded")
		return
	}
	if !x.Rep.Exhaustive {
		return // the search did not reach its fixpoint: no complete graph to tour
	}
	worlds, err := buildWorlds(instances)
	if err != nil {
		x.Rep.HarnessError("Tour: fixture: %v", err)
		return
	}
	if x.PrepWorld != nil {
		for _, w := range worlds {
			if err := x.PrepWorld(w); err != nil {
				x.Rep.HarnessError("Tour: fixture: %v", err)
				return
			}
		}
	}
	type edge struct {
		from string
		op   int
	}
	var keys []string
	for k := range x.graph {
		keys = append(keys, k)
	}
	sort.Strings(keys)
	var edges []edge
	for _, k := range keys {
		for oi := range x.graph[k] {
			edges = append(edges, edge{k, oi})
		}
	}
	var steps, covered, diverged int64
	var wg sync.WaitGroup
	for wi := range worlds {
		wg.Add(1)
		go func(wi int) {
			defer wg.Done()
			w := worlds[wi]
			wk := &Worker{ID: wi, W: w, X: x}
			todo := map[edge]bool{}
			for j, e := range edges {
				if j%len(worlds) == wi {
					todo[e] = true
				}
			}
			cur := x.k0
			if k := w.StateKey(w.Ctx); k != cur {
				x.Rep.HarnessError("Tour: instance %d does not start on W0", wi)
				return
			}
			var model any
			if x.ModelInit != nil {
				model = x.ModelInit(w)
			}
			var path []int
			step := func(oi int) bool {
				op := x.Prefix[oi]
				cctx, write := w.Ctx.CacheContext()
				res := w.Apply(cctx, op)
				var m2 any
				if x.ModelStep != nil {
					m2 = x.ModelStep(w, model, op, res, w.Ctx, cctx)
				}
				n := Node{Path: append([]int{}, path...)}
				if x.OnTransition != nil {
					x.OnTransition(wk, n, op, res, w.Ctx, cctx, model, m2)
				}
				write() // the history is kept: this instance lives through ONE linear sequence of operations
				path = append(path, oi)
				model = m2
				atomic.AddInt64(&steps, 1)
				want := x.graph[cur][oi]
				got := w.StateKey(w.Ctx)
				if got != want {
					atomic.AddInt64(&diverged, 1)
					x.Rep.Violate(Violation{Kind: "behaviour-depends-on-process-history", Group: op.Label,
						Sig:    fmt.Sprintf("tour: %v", pathLabels(x.Prefix, path)),
						Replay: mustJSON(map[string]any{"ops": Node{Path: path}.Ops(x.Prefix)}),
						What: fmt.Sprintf("on an instance that lived through the linear history %v the operation %s led to other store contents than the same operation on the same store contents during the search: the outcome depends on state outside the stores", pathLabels(x.Prefix, path[:len(path)-1]), op.Label)})
					return false
				}
				cur = got
				if x.OnState != nil {
					x.OnState(wk, Node{Path: append([]int{}, path...)}, Branch(w.Ctx), model)
				}
				return true
			}
			for len(todo) > 0 {
				// an uncovered edge out of the current state?
				next := -1
				for oi := range x.graph[cur] {
					if todo[edge{cur, oi}] {
						next = oi
						break
					}
				}
				if next >= 0 {
					delete(todo, edge{cur, next})
					atomic.AddInt64(&covered, 1)
					if !step(next) {
						return
					}
					continue
				}
				// shortest path (in explored operations) to a state with an uncovered edge of this instance
				type qn struct {
					key  string
					path []int
				}
				seen := map[string]bool{cur: true}
				queue := []qn{{cur, nil}}
				var route []int
				for len(queue) > 0 && route == nil {
					q := queue[0]
					queue = queue[1:]
					for oi, to := range x.graph[q.key] {
						if seen[to] {
							continue
						}
						seen[to] = true
						p := append(append([]int{}, q.path...), oi)
						has := false
						for oj := range x.graph[to] {
							if todo[edge{to, oj}] {
								has = true
								break
							}
						}
						if has {
							route = p
							break
						}
						queue = append(queue, qn{to, p})
					}
				}
				if route == nil {
					// remaining edges start in states this instance can no longer reach (the graph is not strongly
					// connected from here): count them as not toured
					x.Rep.Count("tour_edges_unreachable_from_tour_position", int64(len(todo)))
					return
				}
				for _, oi := range route {
					if todo[edge{cur, oi}] {
						delete(todo, edge{cur, oi})
						atomic.AddInt64(&covered, 1)
					}
					if !step(oi) {
						return
					}
				}
			}
		}(wi)
	}
	wg.Wait()
	x.Rep.Count("tour_steps", steps)
	x.Rep.Count("tour_edges_covered", covered)
	x.Rep.Extra["tour_edges_total"] = len(edges)
	x.Rep.Extra["tour_instances"] = len(worlds)
	x.Rep.Count("traces_validated_against_impl", steps)
}
