package simapp

// C05 — the outgoing bridge request carries exactly the user's route and parameters.
// E2 over attribute menus on the INSTRUMENTED stand (recorded requests) cross-checked against the typed
// events of the FULL application; the (protocol id × attribute type) and (action id × attribute type)
// mismatch matrices; MsgReplaceDepositForBurn with a real attestation.

import (
	"bytes"
	"encoding/hex"
	"fmt"
	"strings"

	warptypes "github.com/bcp-innovations/hyperlane-cosmos/x/warp/types"
	cctptypes "github.com/circlefin/noble-cctp/x/cctp/types"
	ethcrypto "github.com/ethereum/go-ethereum/crypto"

	banktypes "github.com/cosmos/cosmos-sdk/x/bank/types"

	orbtypes "github.com/noble-assets/orbiter/v2/types"
	fwdtypes "github.com/noble-assets/orbiter/v2/types/controller/forwarding"
	"github.com/noble-assets/orbiter/v2/types/core"
)

type c05Case struct {
	Label string
	Fwd   Fwd
	Fees  []FeeSpec
	Amt   string
	Pre   []Op // module configuration / prior state the case starts from (applied on both stands)
}

func nb(n int, fill byte) []byte {
	if n == 0 {
		return nil
	}
	b := bytes.Repeat([]byte{0}, n)
	b[n-1] = fill
	return b
}

func (w *World) c05Cases(full bool) []c05Case {
	var out []c05Case
	feesM := [][]FeeSpec{nil, {{To: w.Fee1.String(), Bps: 100}}}
	amts := []string{"1000", "1"}
	add := func(name string, f Fwd) {
		f.Tag = name
		for fi, fe := range feesM {
			for _, a := range amts {
				if !full && (fi == 1 || a == "1") && f.Kind == "hyp" && !(f.Domain == 1 && len(f.Hook) == 0 && f.HookMeta == "") {
					continue
				}
				if !full && fi == 1 && a == "1" {
					continue
				}
				out = append(out, c05Case{Label: fmt.Sprintf("%s/fee%d/amt=%s", name, fi, a), Fwd: f, Fees: fe, Amt: a})
			}
		}
	}
	// CCTP
	type bv struct {
		n string
		b []byte
	}
	mints := []bv{{"32B", nb(32, 9)}, {"32Bzero", make([]byte, 32)}, {"20B", nb(20, 9)}, {"empty", nil}, {"33B", nb(33, 9)}}
	callers := []bv{{"none", nil}, {"32B", nb(32, 3)}, {"32Bzero", make([]byte, 32)}, {"20B", nb(20, 3)}, {"1B", nb(1, 3)}, {"33B", nb(33, 3)}}
	for _, d := range []uint32{0, 1, 2, 4, 4294967295} {
		for _, m := range mints {
			for _, c := range callers {
				add(fmt.Sprintf("cctp(dom=%d,mint=%s,caller=%s)", d, m.n, c.n), Fwd{Kind: "cctp", Domain: d, MintRecipient: m.b, Caller: c.b})
			}
		}
	}
	// Hyperlane: full product is large; quick varies one dimension at a time around the valid centre plus all pairs with token/hook
	toks := []bv{{"T0", w.TokenT0.Bytes()}, {"unknown", nb(32, 77)}, {"31B", nb(31, 1)}}
	doms := []uint32{1, 2, 3, 1313817164, 1196573006}
	rcps := []bv{{"32B", nb(32, 5)}, {"31B", nb(31, 5)}}
	hooks := []bv{{"none", nil}, {"H0", w.HookH0.Bytes()}, {"unknown32", nb(32, 66)}, {"5B", nb(5, 1)}, {"zero32", make([]byte, 32)}}
	gases := []string{"", "0", "1", maxUint256Str, "-1"}
	fees := []string{"", "0uusdc", "1uusdc", "1uother", `{"denom":"!!","amount":"1"}`, `{"denom":"uusdc","amount":"-1"}`}
	metas := []string{"", "0x", "0xabcd", "abcd", "0xzz"}
	mkHyp := func(t bv, d uint32, r bv, h bv, g, f, m string) {
		add(fmt.Sprintf("hyp(tok=%s,dom=%d,rcp=%s,hook=%s,gas=%s,fee=%s,meta=%q)", t.n, d, r.n, h.n, trunc(g, 6), trunc(f, 22), m),
			Fwd{Kind: "hyp", Token: t.b, Domain: d, Recipient: r.b, Hook: h.b, GasLimit: g, MaxFee: f, HookMeta: m})
	}
	if full || true { // the full Hyperlane product is cheap enough for every tier (quick restricts fee/amount variants instead)
		for _, t := range toks {
			for _, d := range doms {
				for _, r := range rcps {
					for _, h := range hooks {
						for _, g := range gases {
							for _, f := range fees {
								for _, m := range metas {
									mkHyp(t, d, r, h, g, f, m)
								}
							}
						}
					}
				}
			}
		}
	} else {
		c := func() (bv, uint32, bv, bv, string, string, string) { return toks[0], 1, rcps[0], hooks[0], "0", "0uusdc", "" }
		for _, t := range toks {
			_, d, r, h, g, f, m := c()
			mkHyp(t, d, r, h, g, f, m)
		}
		for _, d := range doms {
			t, _, r, h, g, f, m := c()
			mkHyp(t, d, r, h, g, f, m)
		}
		for _, r := range rcps {
			t, d, _, h, g, f, m := c()
			mkHyp(t, d, r, h, g, f, m)
		}
		for _, h := range hooks {
			for _, m := range metas {
				t, d, r, _, g, f, _ := c()
				mkHyp(t, d, r, h, g, f, m)
			}
		}
		for _, g := range gases {
			for _, f := range fees {
				t, d, r, h, _, _, m := c()
				mkHyp(t, d, r, h, g, f, m)
			}
		}
	}
	// Internal
	for _, r := range []bv{{"bob", []byte(w.Bob.String())}, {"BOB", []byte(strings.ToUpper(w.Bob.String()))}, {"cctp-module", []byte(moduleAddr("cctp").String())},
		{"dust", []byte(w.Dust.String())}, {"orb", []byte(w.Orb.String())}, {"invalid", []byte("noble1invalid")}, {"empty", nil}} {
		add(fmt.Sprintf("internal(%s)", r.n), Fwd{Kind: "internal", To: string(r.b)})
	}
	// a chain on which a SYNTHETIC Hyperlane token exists and the orbiter account holds some of its denomination (the
	// example application enables collateral tokens only; the fixture enables both): "the request carries the post-action
	// amount AND DENOM" — a request naming a token that moves another coin than the transferred one must not go out
	// (seeds C16f, C05h, C16h); the ordinary routes must be unaffected by that configuration
	synPre := []Op{OpEnv("hyp-synthetic")}
	for _, f := range []Fwd{w.FwdHypSyn(), w.FwdHyp(1), w.FwdCCTP(0), w.FwdInternal(w.Bob)} {
		for fi, fe := range feesM {
			for _, a := range []string{"1000", "1", "1001"} {
				out = append(out, c05Case{Label: fmt.Sprintf("synthetic-token-exists:%s/fee%d/amt=%s", f, fi, a), Fwd: f, Fees: fe, Amt: a, Pre: synPre})
			}
		}
	}
	return out
}

func init() { register("C05", checkC05) }

func checkC05(tier string) *Report {
	rep := NewReport("C05", tier, "exploration")
	full := tier == "thorough"
	rep.Rule = "cross product of attribute menus per forwarding type × {no fee, bps fee} × amounts (quick: Hyperlane varied one/two dimensions at a time); every (protocol id, attribute type) and (action id, attribute type) cell; ReplaceDepositForBurn menus. Non-trivial = the payload reached a bridge (success) or a matrix cell off the diagonal"
	rep.Assumptions = []string{
		"INSTRUMENTED stand records the request objects handed to the bridge servers; the FULL application's typed events are cross-checked for the same packet",
		"'the payload's parameters' = the attribute values obtained by decoding the memo with the application codec, independently of the orbiter parser",
	}
	worlds, err := buildWorlds(numWorkers())
	if err != nil {
		rep.HarnessError("fixture: %v", err)
		return rep
	}
	instr := map[*World]*Instr{}
	for _, w := range worlds {
		in, err := NewInstr(w, false)
		if err != nil {
			rep.HarnessError("instr: %v", err)
			return rep
		}
		instr[w] = in
	}
	cases := worlds[0].c05Cases(full)
	rep.Extra["attribute_cases"] = len(cases)
	parallelFor(worlds, len(cases), func(w *World, i int) { c05RunCase(rep, w, instr[w], cases[i]) })
	for i := 0; i < len(cases); i += len(cases)/5 + 1 {
		rep.Sample(cases[i].Label)
	}
	c05Matrix(rep, worlds[0], instr[worlds[0]])
	c05Replace(rep, worlds[0], instr[worlds[0]])
	rep.Guard(rep.Outcomes["request-compared"] > 50 && rep.Outcomes["refused"] > 50, "outcome classes missing: %v", rep.Outcomes)
	rep.Guard(rep.Outcomes["matrix-diagonal-executed"] >= 6 && rep.Outcomes["matrix-off-diagonal-refused"] > 30, "matrix vacuous: %v", rep.Outcomes)
	rep.Guard(rep.Outcomes["replace-ok"] > 0, "ReplaceDepositForBurn never succeeded: %v", rep.Outcomes)
	return rep
}

func c05RunCase(rep *Report, w *World, in *Instr, c c05Case) {
	memo := Memo(c.Fwd, c.Fees)
	pkt := NewPkt("channel-0", denomUSDC, c.Amt, w.Orb.String(), memo)
	sig := c.Label
	group := c.Fwd.Kind
	replay := mustJSON(map[string]any{"ops": []Op{{Label: c.Label, Pkt: &pkt}}, "expect": []replayExpect{{Kind: "no_panic", Want: true}}})
	ctx, fctx := Branch(w.Ctx), Branch(w.Ctx)
	for _, op := range c.Pre {
		if ra, rb := w.Apply(ctx, op), w.Apply(fctx, op); !ra.Succeeded() || !rb.Succeeded() {
			rep.HarnessError("C05 case %s: state construction failed at %s", c.Label, op.Label)
			return
		}
	}
	r := in.Recv(ctx, pkt, nil, "")
	rep.Count("evaluations", 1)
	// the same packet on the application's own stack (typed events)
	rf := w.Recv(fctx, pkt)
	if r.Panic != "" || rf.Panic != "" {
		rep.Outcome("panic")
		rep.Violate(Violation{Kind: "panic", Group: group, Sig: sig, Replay: replay, What: fmt.Sprintf("receive path panicked: %s%s [%s]", r.Panic, rf.Panic, sig)})
		return
	}
	if string(r.Ack) != string(rf.Ack) {
		rep.HarnessError("instrumented stand and app stack disagree on %s: %s vs %s", sig, r.Ack, rf.Ack)
		return
	}
	var reqs []Call
	for _, cl := range in.Rec.Calls {
		if cl.Msg != nil && !strings.HasPrefix(cl.Site, "warp.Token") {
			reqs = append(reqs, cl)
		}
	}
	if !r.Success {
		rep.Outcome("refused")
		return
	}
	rep.Distinct(sig)
	// decode the payload independently
	var pw core.PayloadWrapper
	if err := orbtypes.UnmarshalJSON(w.App.appCodec, []byte(memo), &pw); err != nil || pw.Orbiter == nil || pw.Orbiter.Forwarding == nil {
		rep.Violate(Violation{Kind: "executed-undecodable-payload", Group: group, Sig: sig, Replay: replay, What: fmt.Sprintf("transfer executed but the memo does not decode with the app codec: %v [%s]", err, sig)})
		return
	}
	attr, _ := pw.Orbiter.Forwarding.CachedAttributes()
	A, _ := parseIntLikeSDK(c.Amt)
	fr := feeRef(A, c.Fees)
	out := A.Sub(A, fr.Total).String()
	if len(reqs) != 1 {
		rep.Violate(Violation{Kind: "not-exactly-one-request", Group: group, Sig: sig, Replay: replay, What: fmt.Sprintf("%d route requests recorded for a successful transfer [%s]", len(reqs), sig)})
		return
	}
	rep.Outcome("request-compared")
	rep.Count("traces_validated_against_impl", 1)
	var diffs []string
	cmp := func(field string, got, want any) {
		g, x := fmt.Sprint(got), fmt.Sprint(want)
		if g != x {
			diffs = append(diffs, fmt.Sprintf("%s: request %s, payload %s", field, trunc(g, 80), trunc(x, 80)))
		}
	}
	orb := w.Orb.String()
	switch a := attr.(type) {
	case *fwdtypes.CCTPAttributes:
		switch m := reqs[0].Msg.(type) {
		case *cctptypes.MsgDepositForBurn:
			if len(a.DestinationCaller) != 0 {
				diffs = append(diffs, fmt.Sprintf("destination_caller: payload has %x but the request without caller was used", a.DestinationCaller))
			}
			cmp("from", m.From, orb)
			cmp("amount", m.Amount, out)
			cmp("destination_domain", m.DestinationDomain, a.DestinationDomain)
			cmp("mint_recipient", hex.EncodeToString(m.MintRecipient), hex.EncodeToString(a.MintRecipient))
			cmp("burn_token", m.BurnToken, denomUSDC)
		case *cctptypes.MsgDepositForBurnWithCaller:
			cmp("from", m.From, orb)
			cmp("amount", m.Amount, out)
			cmp("destination_domain", m.DestinationDomain, a.DestinationDomain)
			cmp("mint_recipient", hex.EncodeToString(m.MintRecipient), hex.EncodeToString(a.MintRecipient))
			cmp("burn_token", m.BurnToken, denomUSDC)
			cmp("destination_caller", hex.EncodeToString(m.DestinationCaller), hex.EncodeToString(a.DestinationCaller))
		default:
			diffs = append(diffs, fmt.Sprintf("route: payload names CCTP but the request is %T", m))
		}
		// typed event of the full app
		ev := findEvent(rf.Events, "circle.cctp.v1.DepositForBurn")
		if ev == nil {
			diffs = append(diffs, "full app emitted no circle.cctp.v1.DepositForBurn event")
		} else {
			cmp("event.amount", strings.Trim(ev["amount"], `"`), out)
			cmp("event.destination_domain", ev["destination_domain"], a.DestinationDomain)
			cmp("event.depositor", strings.Trim(ev["depositor"], `"`), orb)
			cmp("event.mint_recipient", strings.Trim(ev["mint_recipient"], `"`), b64(a.MintRecipient))
			wantCaller := `""`
			if len(a.DestinationCaller) > 0 {
				wantCaller = `"` + b64(a.DestinationCaller) + `"`
			}
			if ev["destination_caller"] != wantCaller && !(len(a.DestinationCaller) == 0 && (ev["destination_caller"] == "null" || ev["destination_caller"] == "")) {
				diffs = append(diffs, fmt.Sprintf("event.destination_caller: %s, payload %s", ev["destination_caller"], wantCaller))
			}
		}
	case *fwdtypes.HypAttributes:
		m, ok := reqs[0].Msg.(*warptypes.MsgRemoteTransfer)
		if !ok {
			diffs = append(diffs, fmt.Sprintf("route: payload names Hyperlane but the request is %T", reqs[0].Msg))
			break
		}
		cmp("sender", m.Sender, orb)
		cmp("amount", m.Amount, out)
		cmp("token_id", hex.EncodeToString(m.TokenId.Bytes()), hex.EncodeToString(a.TokenId))
		cmp("destination_domain", m.DestinationDomain, a.DestinationDomain)
		cmp("recipient", hex.EncodeToString(m.Recipient.Bytes()), hex.EncodeToString(a.Recipient))
		if len(a.CustomHookId) == 0 {
			cmp("custom_hook_id", m.CustomHookId == nil, true)
		} else if m.CustomHookId == nil {
			diffs = append(diffs, "custom_hook_id: payload has one, request has none")
		} else {
			cmp("custom_hook_id", hex.EncodeToString(m.CustomHookId.Bytes()), hex.EncodeToString(a.CustomHookId))
		}
		cmp("gas_limit", m.GasLimit, a.GasLimit)
		cmp("max_fee", m.MaxFee, a.MaxFee)
		cmp("custom_hook_metadata", m.CustomHookMetadata, a.CustomHookMetadata)
		ev := findEvent(rf.Events, "hyperlane.warp.v1.EventSendRemoteTransfer")
		if ev == nil {
			diffs = append(diffs, "full app emitted no EventSendRemoteTransfer")
		} else {
			cmp("event.amount", strings.Trim(ev["amount"], `"`), out+denomUSDC)
			cmp("event.destination_domain", ev["destination_domain"], a.DestinationDomain)
			cmp("event.sender", strings.Trim(ev["sender"], `"`), orb)
		}
	case *fwdtypes.InternalAttributes:
		m, ok := reqs[0].Msg.(*banktypes.MsgSend)
		if !ok {
			diffs = append(diffs, fmt.Sprintf("route: payload names Internal but the request is %T", reqs[0].Msg))
			break
		}
		cmp("from", m.FromAddress, orb)
		cmp("to", m.ToAddress, a.Recipient)
		cmp("amount", m.Amount, out+denomUSDC)
	default:
		diffs = append(diffs, fmt.Sprintf("unknown attribute type %T executed", attr))
	}
	if len(diffs) > 0 {
		first := diffs[0]
		if i := strings.Index(first, ":"); i > 0 {
			first = first[:i]
		}
		rep.Violate(Violation{Kind: "request-differs-from-payload", Group: group, Sig: sig + " | " + first, Replay: replay,
			What: fmt.Sprintf("bridge request differs from the payload's parameters: %s [%s]", strings.Join(diffs, "; "), sig)})
	}
}

func findEvent(evs []Event, typ string) map[string]string {
	for _, e := range evs {
		if e.Type == typ {
			m := map[string]string{}
			for _, a := range e.Attrs {
				m[a[0]] = a[1]
			}
			return m
		}
	}
	return nil
}

// c05Matrix: every (protocol id, attribute type) and (action id, attribute type) cell.
func c05Matrix(rep *Report, w *World, in *Instr) {
	type at struct{ name, json string }
	attrs := []at{
		{"CCTP", w.FwdCCTP(0).attrsJSON()}, {"Hyp", w.FwdHyp(1).attrsJSON()}, {"Internal", w.FwdInternal(w.Bob).attrsJSON()},
		{"Fee", fmt.Sprintf(`{"@type":"%s","fees_info":[]}`, urlFee)}, {"Unregistered", `{"@type":"/noble.orbiter.controller.forwarding.v1.Nope","x":1}`},
		{"BankMsgSend", `{"@type":"/cosmos.bank.v1beta1.MsgSend","from_address":"a","to_address":"b","amount":[]}`},
	}
	ids := []string{"-1", "0", "1", "2", "3", "4", "5", "2147483647", "2147483648", `"PROTOCOL_UNSUPPORTED"`, `"PROTOCOL_IBC"`, `"PROTOCOL_CCTP"`, `"PROTOCOL_HYPERLANE"`, `"PROTOCOL_INTERNAL"`, `"PROTOCOL_FOO"`, `"2"`, `null`}
	diag := map[string]string{"2": "CCTP", `"PROTOCOL_CCTP"`: "CCTP", "3": "Hyp", `"PROTOCOL_HYPERLANE"`: "Hyp", "4": "Internal", `"PROTOCOL_INTERNAL"`: "Internal"}
	for _, id := range ids {
		for _, a := range attrs {
			memo := fmt.Sprintf(`{"orbiter":{"forwarding":{"protocol_id":%s,"attributes":%s}}}`, id, a.json)
			c05Cell(rep, w, in, "protocol_id="+id+" attrs="+a.name, memo, diag[id] == a.name, "forwarding")
		}
	}
	aattrs := []at{{"Fee", fmt.Sprintf(`{"@type":"%s","fees_info":[{"recipient":"%s","basis_points":{"value":100}}]}`, urlFee, w.Fee1.String())},
		{"CCTP", w.FwdCCTP(0).attrsJSON()}, {"Unregistered", `{"@type":"/noble.orbiter.controller.action.v2.Nope"}`}}
	aids := []string{"-1", "0", "1", "2", "3", `"ACTION_UNSUPPORTED"`, `"ACTION_FEE"`, `"ACTION_SWAP"`, `"ACTION_FOO"`, `null`}
	adiag := map[string]string{"1": "Fee", `"ACTION_FEE"`: "Fee"}
	for _, id := range aids {
		for _, a := range aattrs {
			memo := fmt.Sprintf(`{"orbiter":{"pre_actions":[{"id":%s,"attributes":%s}],"forwarding":{"protocol_id":"PROTOCOL_INTERNAL","attributes":%s}}}`, id, a.json, w.FwdInternal(w.Bob).attrsJSON())
			c05Cell(rep, w, in, "action_id="+id+" attrs="+a.name, memo, adiag[id] == a.name, "action")
		}
	}
}

func c05Cell(rep *Report, w *World, in *Instr, label, memo string, diagonal bool, kind string) {
	pkt := NewPkt("channel-0", denomUSDC, "1000", w.Orb.String(), memo)
	ctx := Branch(w.Ctx)
	r := in.Recv(ctx, pkt, nil, "")
	rep.Count("evaluations", 1)
	rep.Count("matrix_cells", 1)
	sig := "matrix " + label
	replay := mustJSON(map[string]any{"ops": []Op{{Label: label, Pkt: &pkt}}})
	nreq := 0
	for _, cl := range in.Rec.Calls {
		if cl.Msg != nil && !strings.HasPrefix(cl.Site, "warp.Token") {
			nreq++
		}
	}
	nfee := len(in.Rec.Find("bank.SendCoins"))
	if r.Panic != "" {
		rep.Violate(Violation{Kind: "panic", Group: "matrix", Sig: sig, Replay: replay, What: "panic " + r.Panic + " [" + sig + "]"})
		return
	}
	rep.Distinct(sig)
	if diagonal {
		if !r.Success {
			rep.Violate(Violation{Kind: "diagonal-cell-refused", Group: "matrix", Sig: sig, Replay: replay, What: fmt.Sprintf("matching identifier and attribute type refused: %s [%s]", r.AckErr(), sig)})
			return
		}
		rep.Outcome("matrix-diagonal-executed")
		return
	}
	if r.Success {
		rep.Violate(Violation{Kind: "mismatched-cell-executed", Group: "matrix", Sig: sig, Replay: replay,
			What: fmt.Sprintf("payload whose %s identifier does not match its attribute type (or has no controller) was executed [%s]", kind, sig)})
		return
	}
	if nreq != 0 || (kind == "action" && nfee != 0) {
		rep.Violate(Violation{Kind: "refused-cell-reached-bridge", Group: "matrix", Sig: sig, Replay: replay, What: fmt.Sprintf("refused payload still issued %d route requests / %d fee sends [%s]", nreq, nfee, sig)})
		return
	}
	rep.Outcome("matrix-off-diagonal-refused")
}

// c05Replace: the authority's deposit-replacement message reaches CCTP with exactly its fields and the
// orbiter account as owner; with a valid attestation over a real MessageSent of a prior orbiter transfer it succeeds.
func c05Replace(rep *Report, w *World, in *Instr) {
	ctx := Branch(w.Ctx)
	t := TransferSpec{"channel-0", denomUSDC, "5000", w.Orb.String(), w.FwdCCTPCaller(0), nil}
	r := w.Recv(ctx, t.Pkt())
	if !r.Success {
		rep.HarnessError("prior CCTP transfer failed: %s", r.AckErr())
		return
	}
	ev := findEvent(r.Events, "circle.cctp.v1.MessageSent")
	if ev == nil {
		rep.HarnessError("no MessageSent event")
		return
	}
	var msgBytes []byte
	if err := jsonUnmarshal([]byte(ev["message"]), &msgBytes); err != nil {
		rep.HarnessError("cannot decode MessageSent: %v", err)
		return
	}
	key, _ := ethcrypto.HexToECDSA(w.AttesterKeyHex)
	sign := func(m []byte, k string) []byte {
		kk := key
		if k != "" {
			kk, _ = ethcrypto.ToECDSA(ethcrypto.Keccak256([]byte(k)))
		}
		s, _ := ethcrypto.Sign(ethcrypto.Keccak256(m), kk)
		return s
	}
	foreign := append([]byte{}, msgBytes...)
	foreign[len(foreign)-1] ^= 0xff
	type rc struct {
		name      string
		msg, att  []byte
		caller    []byte
		recipient []byte
		signer    string
		wantOK    bool
	}
	cases := []rc{
		{"valid new caller+recipient", msgBytes, sign(msgBytes, ""), nb(32, 44), nb(32, 55), w.Authority, true},
		{"valid empty caller", msgBytes, sign(msgBytes, ""), make([]byte, 32), nb(32, 55), w.Authority, true},
		{"wrong attester key", msgBytes, sign(msgBytes, "someone-else"), nb(32, 44), nb(32, 55), w.Authority, false},
		{"tampered message", foreign, sign(msgBytes, ""), nb(32, 44), nb(32, 55), w.Authority, false},
		{"zero recipient", msgBytes, sign(msgBytes, ""), nb(32, 44), make([]byte, 32), w.Authority, false},
		{"20B caller", msgBytes, sign(msgBytes, ""), nb(20, 44), nb(32, 55), w.Authority, false},
		{"empty message", nil, sign(msgBytes, ""), nb(32, 44), nb(32, 55), w.Authority, false},
		{"non-authority signer", msgBytes, sign(msgBytes, ""), nb(32, 44), nb(32, 55), w.Mallory.String(), false},
	}
	// through the instrumented keeper's own message server wiring: use the app's Msg router for the verdict
	// and the instrumented forwarder msg server for the recorded request.
	for _, c := range cases {
		spec := MsgSpec{RPC: "ReplaceDepositForBurn", Signer: c.signer, OrigMsg: c.msg, OrigAtt: c.att, NewCaller: c.caller, NewRecipient: c.recipient}
		op := opMsg("ReplaceDepositForBurn("+c.name+")", spec)
		b := Branch(ctx)
		res := w.Apply(b, op)
		rep.Count("evaluations", 1)
		sig := "replace " + c.name
		replay := mustJSON(map[string]any{"ops": []Op{{Label: "prior", Pkt: func() *Pkt { p := t.Pkt(); return &p }()}, op}})
		if res.Msg.Panic != "" {
			rep.Violate(Violation{Kind: "panic", Group: "replace", Sig: sig, Replay: replay, What: "ReplaceDepositForBurn panicked: " + res.Msg.Panic})
			continue
		}
		rep.Distinct(sig)
		if res.Msg.OK != c.wantOK {
			rep.Violate(Violation{Kind: "replace-outcome", Group: "replace", Sig: sig, Replay: replay,
				What: fmt.Sprintf("ReplaceDepositForBurn(%s): expected ok=%v, got ok=%v err=%q", c.name, c.wantOK, res.Msg.OK, res.Msg.Err)})
			continue
		}
		// recorded request on the instrumented forwarder
		in.Rec.Reset(nil, "")
		b2 := Branch(ctx)
		ms := forwarderMsgServer(in)
		m, _ := spec.Build()
		_, err := ms.ReplaceDepositForBurn(b2, m.(*fwdReplaceMsg))
		recs := in.Rec.Find("cctp.ReplaceDepositForBurn")
		if c.signer != w.Authority {
			if len(recs) != 0 || err == nil {
				rep.Violate(Violation{Kind: "replace-unauthorised-reached-cctp", Group: "replace", Sig: sig, Replay: replay, What: "non-authority ReplaceDepositForBurn reached CCTP"})
			}
			rep.Outcome("replace-refused")
			continue
		}
		if len(recs) != 1 {
			rep.Violate(Violation{Kind: "replace-request-count", Group: "replace", Sig: sig, Replay: replay, What: fmt.Sprintf("%d CCTP requests recorded", len(recs))})
			continue
		}
		q := recs[0].Msg.(*cctptypes.MsgReplaceDepositForBurn)
		if q.From != w.Orb.String() || !bytes.Equal(q.OriginalMessage, c.msg) || !bytes.Equal(q.OriginalAttestation, c.att) ||
			!bytes.Equal(q.NewDestinationCaller, c.caller) || !bytes.Equal(q.NewMintRecipient, c.recipient) {
			rep.Violate(Violation{Kind: "replace-request-differs", Group: "replace", Sig: sig, Replay: replay,
				What: fmt.Sprintf("CCTP ReplaceDepositForBurn request differs from the message: from=%s caller=%x recipient=%x", q.From, q.NewDestinationCaller, q.NewMintRecipient)})
			continue
		}
		rep.Count("traces_validated_against_impl", 1)
		if res.Msg.OK {
			rep.Outcome("replace-ok")
		} else {
			rep.Outcome("replace-refused")
		}
	}
}

func signWith(keyHex string, msg []byte) []byte {
	key, err := ethcrypto.HexToECDSA(keyHex)
	if err != nil {
		return nil
	}
	s, _ := ethcrypto.Sign(ethcrypto.Keccak256(msg), key)
	return s
}
