package simapp

// world.go — builds the fixture state W0 on the REAL, fully wired SimApp (DESIGN §1.1).
// Everything here goes through the modules' own genesis / Msg servers; nothing of orbiter is mocked.

import (
	"bytes"
	"math/big"
	"encoding/hex"
	"encoding/json"
	"fmt"
	"sort"
	"sync"
	"time"

	abci "github.com/cometbft/cometbft/abci/types"
	cmtproto "github.com/cometbft/cometbft/proto/tendermint/types"
	cmttypes "github.com/cometbft/cometbft/types"
	dbm "github.com/cosmos/cosmos-db"
	ethcrypto "github.com/ethereum/go-ethereum/crypto"

	"cosmossdk.io/log"
	"cosmossdk.io/math"

	ismtypes "github.com/bcp-innovations/hyperlane-cosmos/x/core/01_interchain_security/types"
	pdtypes "github.com/bcp-innovations/hyperlane-cosmos/x/core/02_post_dispatch/types"
	hyptypes "github.com/bcp-innovations/hyperlane-cosmos/x/core/types"
	hyputil "github.com/bcp-innovations/hyperlane-cosmos/util"
	warptypes "github.com/bcp-innovations/hyperlane-cosmos/x/warp/types"
	cctptypes "github.com/circlefin/noble-cctp/x/cctp/types"
	"github.com/circlefin/noble-fiattokenfactory/x/blockibc"
	ftftypes "github.com/circlefin/noble-fiattokenfactory/x/fiattokenfactory/types"
	"github.com/cosmos/cosmos-sdk/baseapp"
	"github.com/cosmos/cosmos-sdk/crypto/keys/secp256k1"
	"github.com/cosmos/cosmos-sdk/testutil/mock"
	sims "github.com/cosmos/cosmos-sdk/testutil/sims"
	sdk "github.com/cosmos/cosmos-sdk/types"
	authtypes "github.com/cosmos/cosmos-sdk/x/auth/types"
	banktypes "github.com/cosmos/cosmos-sdk/x/bank/types"
	"github.com/cosmos/ibc-go/v8/modules/apps/transfer"
	transfertypes "github.com/cosmos/ibc-go/v8/modules/apps/transfer/types"
	porttypes "github.com/cosmos/ibc-go/v8/modules/core/05-port/types"

	"github.com/noble-assets/orbiter/v2/types/core"
)

const (
	chainID   = "orbiter-1"
	denomUSDC = "uusdc"
	denomOTH  = "uother"
	denomIGP  = "uigp"
	denomBIG  = "ubig"
	denomBIG2 = "uwide" // an 18-decimal style denomination: large amounts held by an ordinary account too (2^199 each)
	burnLimit = 1_000_000
)

var maxUint256Str = "115792089237316195423570985008687907853269984665640564039457584007913129639935"

var sdkConfigOnce sync.Once

func setSDKConfig() {
	sdkConfigOnce.Do(func() {
		cfg := sdk.GetConfig()
		cfg.SetBech32PrefixForAccount("noble", "noblepub")
		cfg.SetBech32PrefixForValidator("noblevaloper", "noblevaloperpub")
		cfg.SetBech32PrefixForConsensusNode("noblevalcons", "noblevalconspub")
	})
}

func acctFromSecret(s string) sdk.AccAddress {
	return sdk.AccAddress(secp256k1.GenPrivKeyFromSecret([]byte(s)).PubKey().Address())
}

// World is one fully wired application instance plus the fixture's names.
type World struct {
	App   *SimApp
	Ctx   sdk.Context // W0: uncached context at height 2
	Stack porttypes.IBCModule // blockibc -> orbiter -> transfer (the application's own)
	Ref   porttypes.IBCModule // blockibc -> transfer (same keepers, orbiter middleware absent)

	Authority string
	Orb, Dust sdk.AccAddress
	Alice, Bob, Carol, Fee1, Fee2, Mallory sdk.AccAddress
	FtfOwner, FtfPauser, FtfBlacklister, CctpOwner sdk.AccAddress
	Escrow0, Escrow1 sdk.AccAddress

	// Hyperlane fixture
	IsmID, HookH0, IgpI1, MailboxM0, MailboxM1 hyputil.HexAddress
	TokenT0, TokenT1                           hyputil.HexAddress
	TokenSyn                                   hyputil.HexAddress // id the synthetic token WILL get (Env hyp-synthetic); not in W0
	DenomSyn                                   string

	// UseInstr != nil: Recv goes through the instrumented stand instead of the app's own stack
	UseInstr *Instr

	// CCTP attester (secp256k1, go-ethereum) whose key the harness holds
	AttesterKeyHex string
}

var silentLogger = log.NewNopLogger()

// The example application enables only COLLATERAL Hyperlane tokens (simapp/app.yaml, warp.enabled_tokens = [1]).
// The harness runs the same application with SYNTHETIC tokens enabled as well: a superset deployment (nothing
// changes until a synthetic token is created; W0 is byte-identical) in which "the route's token has another
// denomination than the coin received" is reachable with a token the account can actually hold.
var synthEnabledOK = func() bool {
	old := []byte("- 1 # Enable Collateral tokens")
	if !bytes.Contains(AppConfigYAML, old) {
		return false
	}
	AppConfigYAML = bytes.Replace(AppConfigYAML, old, []byte("- 1\n        - 2"), 1)
	return true
}()

// NewWorld boots SimApp over a MemDB and installs the fixture. Deterministic: fixed keys, fixed times.
func NewWorld() (*World, error) {
	setSDKConfig()
	if !synthEnabledOK {
		return nil, fmt.Errorf("simapp/app.yaml: the warp module's enabled_tokens line was not found; the fixture cannot enable synthetic tokens")
	}
	app, err := NewSimApp(silentLogger, dbm.NewMemDB(), nil, true, sims.EmptyAppOptions{}, baseapp.SetChainID(chainID))
	if err != nil {
		return nil, fmt.Errorf("NewSimApp: %w", err)
	}
	w := &World{App: app}
	w.Authority = app.OrbiterKeeper.Authority()
	w.Orb = core.ModuleAddress
	w.Dust = authtypes.NewModuleAddress(core.DustCollectorName)
	w.Alice, w.Bob, w.Carol = acctFromSecret("alice"), acctFromSecret("bob"), acctFromSecret("carol")
	w.Fee1, w.Fee2, w.Mallory = acctFromSecret("fee1"), acctFromSecret("fee2"), acctFromSecret("mallory")
	w.FtfOwner, w.FtfPauser, w.FtfBlacklister = acctFromSecret("ftfowner"), acctFromSecret("ftfpauser"), acctFromSecret("ftfblacklister")
	w.CctpOwner = acctFromSecret("cctpowner")
	w.Escrow0 = transfertypes.GetEscrowAddress("transfer", "channel-0")
	w.Escrow1 = transfertypes.GetEscrowAddress("transfer", "channel-1")

	gen := app.DefaultGenesis()
	privVal := mock.PV{PrivKey: ed25519FromSecret("validator")}
	pubKey, _ := privVal.GetPubKey()
	val := cmttypes.NewValidator(pubKey, 1)
	valSet := cmttypes.NewValidatorSet([]*cmttypes.Validator{val})
	alicePriv := secp256k1.GenPrivKeyFromSecret([]byte("alice"))
	acc := authtypes.NewBaseAccount(w.Alice, alicePriv.PubKey(), 0, 0)
	big256, _ := math.NewIntFromString(maxUint256Str)
	wide199 := math.NewIntFromBigInt(new(big.Int).Lsh(big.NewInt(1), 199))
	bals := []banktypes.Balance{
		{Address: w.Alice.String(), Coins: sdk.NewCoins(
			sdk.NewCoin(sdk.DefaultBondDenom, math.NewInt(100_000_000_000_000)),
			sdk.NewCoin(denomUSDC, math.NewInt(1_000_000_000_000)),
			sdk.NewCoin(denomOTH, math.NewInt(1_000_000_000_000)),
			sdk.NewCoin(denomIGP, math.NewInt(1_000_000_000_000)),
			sdk.NewCoin(denomBIG2, wide199),
		)},
	}
	for _, e := range []sdk.AccAddress{w.Escrow0, w.Escrow1} {
		coins := sdk.NewCoins(
			sdk.NewCoin(denomUSDC, math.NewInt(1_000_000_000_000_000)),
			sdk.NewCoin(denomOTH, math.NewInt(1_000_000_000_000_000)),
			sdk.NewCoin("a-b.c_d:e", math.NewInt(1_000_000_000)), // exotic but valid native denom (C16)
			sdk.NewCoin("uusdcx", math.NewInt(1_000_000_000)),
			sdk.NewCoin("UUSDC", math.NewInt(1_000_000_000)),
			// a VOUCHER held on Noble (hash of a longer trace) that Noble once sent out over this channel: a counterparty
			// that names it by its hash instead of its full trace makes ICS-20 release it (C16)
			sdk.NewCoin(denomHashedVoucher, math.NewInt(1_000_000_000)),
			sdk.NewCoin(denomBIG2, wide199),
		)
		if e.Equals(w.Escrow0) {
			coins = coins.Add(sdk.NewCoin(denomBIG, big256))
		}
		bals = append(bals, banktypes.Balance{Address: e.String(), Coins: coins})
	}
	gen, err = sims.GenesisStateWithValSet(app.appCodec, gen, valSet, []authtypes.GenesisAccount{acc}, bals...)
	if err != nil {
		return nil, fmt.Errorf("genesis: %w", err)
	}

	cctpAddr := authtypes.NewModuleAddress("cctp").String()
	gen["fiat-tokenfactory"] = app.appCodec.MustMarshalJSON(&ftftypes.GenesisState{
		Paused:       &ftftypes.Paused{Paused: false},
		MintersList:  []ftftypes.Minters{{Address: cctpAddr, Allowance: sdk.NewCoin(denomUSDC, math.NewInt(1_000_000_000_000))}},
		MintingDenom: &ftftypes.MintingDenom{Denom: denomUSDC},
		Owner:        &ftftypes.Owner{Address: w.FtfOwner.String()},
		Pauser:       &ftftypes.Pauser{Address: w.FtfPauser.String()},
		Blacklister:  &ftftypes.Blacklister{Address: w.FtfBlacklister.String()},
	})

	attKey, err := ethcrypto.ToECDSA(ethcrypto.Keccak256([]byte("verif-attester")))
	if err != nil {
		return nil, err
	}
	w.AttesterKeyHex = hex.EncodeToString(ethcrypto.FromECDSA(attKey))
	attPub := "0x" + hex.EncodeToString(ethcrypto.FromECDSAPub(&attKey.PublicKey))
	tm0 := make([]byte, 32)
	tm0[31] = 7
	tm1 := make([]byte, 32)
	tm1[31] = 8
	gen["cctp"] = app.appCodec.MustMarshalJSON(&cctptypes.GenesisState{
		Owner:                             w.CctpOwner.String(),
		AttesterManager:                   w.CctpOwner.String(),
		Pauser:                            w.CctpOwner.String(),
		TokenController:                   w.CctpOwner.String(),
		AttesterList:                      []cctptypes.Attester{{Attester: attPub}},
		TokenMessengerList:                []cctptypes.RemoteTokenMessenger{{DomainId: 0, Address: tm0}, {DomainId: 1, Address: tm1}},
		BurningAndMintingPaused:           &cctptypes.BurningAndMintingPaused{Paused: false},
		SendingAndReceivingMessagesPaused: &cctptypes.SendingAndReceivingMessagesPaused{Paused: false},
		PerMessageBurnLimitList:           []cctptypes.PerMessageBurnLimit{{Denom: denomUSDC, Amount: math.NewInt(burnLimit)}},
		MaxMessageBodySize:                &cctptypes.MaxMessageBodySize{Amount: 8000},
		NextAvailableNonce:                &cctptypes.Nonce{Nonce: 0},
		SignatureThreshold:                &cctptypes.SignatureThreshold{Amount: 1},
	})

	var bankGen banktypes.GenesisState
	app.appCodec.MustUnmarshalJSON(gen["bank"], &bankGen)
	bankGen.DenomMetadata = []banktypes.Metadata{{
		Description: "USD Coin", Base: denomUSDC, Display: "usdc", Name: "usdc", Symbol: "usdc",
		DenomUnits: []*banktypes.DenomUnit{{Denom: denomUSDC, Exponent: 0, Aliases: []string{"microusdc"}}, {Denom: "usdc", Exponent: 6}},
	}}
	gen["bank"] = app.appCodec.MustMarshalJSON(&bankGen)

	// transfer genesis: total escrow bookkeeping consistent with the escrow balances above
	var trGen transfertypes.GenesisState
	app.appCodec.MustUnmarshalJSON(gen["transfer"], &trGen)
	tot := sdk.NewCoins()
	for _, b := range bals[1:] {
		tot = tot.Add(b.Coins...)
	}
	trGen.TotalEscrowed = tot
	gen["transfer"] = app.appCodec.MustMarshalJSON(&trGen)

	stateBytes, err := json.Marshal(gen)
	if err != nil {
		return nil, err
	}
	if _, err = app.InitChain(&abci.RequestInitChain{
		ChainId:         chainID,
		Validators:      []abci.ValidatorUpdate{},
		ConsensusParams: sims.DefaultConsensusParams,
		AppStateBytes:   stateBytes,
		Time:            time.Unix(1700000000, 0).UTC(),
	}); err != nil {
		return nil, fmt.Errorf("InitChain: %w", err)
	}
	if _, err = app.FinalizeBlock(&abci.RequestFinalizeBlock{Height: 1, Time: time.Unix(1700000001, 0).UTC(), NextValidatorsHash: valSet.Hash()}); err != nil {
		return nil, fmt.Errorf("FinalizeBlock: %w", err)
	}
	if _, err = app.Commit(); err != nil {
		return nil, fmt.Errorf("Commit: %w", err)
	}
	w.Ctx = app.BaseApp.NewUncachedContext(false, cmtproto.Header{Height: 2, ChainID: chainID, Time: time.Unix(1700000002, 0).UTC()}).
		WithEventManager(sdk.NewEventManager())

	stack, ok := app.IBCKeeper.Router.GetRoute("transfer")
	if !ok {
		return nil, fmt.Errorf("no transfer route")
	}
	w.Stack = stack
	var ref porttypes.IBCModule = transfer.NewIBCModule(app.TransferKeeper)
	w.Ref = blockibc.NewIBCMiddleware(ref, app.FTFKeeper)

	if err := w.setupHyperlane(); err != nil {
		return nil, err
	}
	return w, nil
}

// call runs a message through the application's own Msg router on ctx (no rollback envelope; fixture only).
func (w *World) call(ctx sdk.Context, msg sdk.Msg) ([]byte, error) {
	h := w.App.MsgServiceRouter().Handler(msg)
	if h == nil {
		return nil, fmt.Errorf("no handler for %T", msg)
	}
	res, err := h(ctx, msg)
	if err != nil {
		return nil, fmt.Errorf("%T: %w", msg, err)
	}
	if len(res.MsgResponses) > 0 {
		return res.MsgResponses[0].Value, nil
	}
	return nil, nil
}

const hypLocalDomain = 1313817164

func (w *World) setupHyperlane() error {
	owner := w.Alice.String()
	ctx := w.Ctx
	var ismR ismtypes.MsgCreateNoopIsmResponse
	bz, err := w.call(ctx, &ismtypes.MsgCreateNoopIsm{Creator: owner})
	if err != nil {
		return err
	}
	if err := ismR.Unmarshal(bz); err != nil {
		return err
	}
	w.IsmID = ismR.Id
	var hookR pdtypes.MsgCreateNoopHookResponse
	if bz, err = w.call(ctx, &pdtypes.MsgCreateNoopHook{Owner: owner}); err != nil {
		return err
	}
	if err := hookR.Unmarshal(bz); err != nil {
		return err
	}
	w.HookH0 = hookR.Id
	var mbR hyptypes.MsgCreateMailboxResponse
	if bz, err = w.call(ctx, &hyptypes.MsgCreateMailbox{Owner: owner, LocalDomain: hypLocalDomain, DefaultIsm: ismR.Id, DefaultHook: &hookR.Id, RequiredHook: &hookR.Id}); err != nil {
		return err
	}
	if err := mbR.Unmarshal(bz); err != nil {
		return err
	}
	w.MailboxM0 = mbR.Id
	var tokR warptypes.MsgCreateCollateralTokenResponse
	if bz, err = w.call(ctx, &warptypes.MsgCreateCollateralToken{Owner: owner, OriginMailbox: mbR.Id, OriginDenom: denomUSDC}); err != nil {
		return err
	}
	if err := tokR.Unmarshal(bz); err != nil {
		return err
	}
	w.TokenT0 = tokR.Id
	for _, d := range []uint32{1, 2} {
		if _, err = w.call(ctx, &warptypes.MsgEnrollRemoteRouter{Owner: owner, TokenId: tokR.Id, RemoteRouter: &warptypes.RemoteRouter{
			ReceiverDomain: d, ReceiverContract: "0x0000000000000000000000000000000000000000000000000000000000000001", Gas: math.ZeroInt()}}); err != nil {
			return err
		}
	}
	// igp variant: mailbox whose required hook charges gas in uigp
	var igpR pdtypes.MsgCreateIgpResponse
	if bz, err = w.call(ctx, &pdtypes.MsgCreateIgp{Owner: owner, Denom: denomIGP}); err != nil {
		return err
	}
	if err := igpR.Unmarshal(bz); err != nil {
		return err
	}
	w.IgpI1 = igpR.Id
	if _, err = w.call(ctx, &pdtypes.MsgSetDestinationGasConfig{Owner: owner, IgpId: igpR.Id, DestinationGasConfig: &pdtypes.DestinationGasConfig{
		RemoteDomain: 1, GasOracle: &pdtypes.GasOracle{TokenExchangeRate: math.NewInt(10000000000), GasPrice: math.NewInt(1)}, GasOverhead: math.NewInt(10)}}); err != nil {
		return err
	}
	var mb2 hyptypes.MsgCreateMailboxResponse
	if bz, err = w.call(ctx, &hyptypes.MsgCreateMailbox{Owner: owner, LocalDomain: hypLocalDomain, DefaultIsm: ismR.Id, DefaultHook: &hookR.Id, RequiredHook: &igpR.Id}); err != nil {
		return err
	}
	if err := mb2.Unmarshal(bz); err != nil {
		return err
	}
	w.MailboxM1 = mb2.Id
	var tok2 warptypes.MsgCreateCollateralTokenResponse
	if bz, err = w.call(ctx, &warptypes.MsgCreateCollateralToken{Owner: owner, OriginMailbox: mb2.Id, OriginDenom: denomUSDC}); err != nil {
		return err
	}
	if err := tok2.Unmarshal(bz); err != nil {
		return err
	}
	w.TokenT1 = tok2.Id
	if _, err = w.call(ctx, &warptypes.MsgEnrollRemoteRouter{Owner: owner, TokenId: tok2.Id, RemoteRouter: &warptypes.RemoteRouter{
		ReceiverDomain: 1, ReceiverContract: "0x0000000000000000000000000000000000000000000000000000000000000001", Gas: math.NewInt(100)}}); err != nil {
		return err
	}
	// the identifier the synthetic token of Env(hyp-synthetic) will receive: learned on a discarded branch
	// (no other operation of any alphabet creates Hyperlane objects, so it is the same in every state)
	bc, _ := ctx.CacheContext()
	id, err := w.createSynthetic(bc)
	if err != nil {
		return err
	}
	w.TokenSyn, w.DenomSyn = id, "hyperlane/"+id.String()
	return nil
}

// createSynthetic: a synthetic token on mailbox M0 with a route to domain 1; 1000 of it minted to the orbiter
// account (what a remote transfer addressed to that account leaves there), 5000 to the channel-0 escrow (it has
// been sent out over IBC before, so a voucher can return) and 1000 to alice.
func (w *World) createSynthetic(ctx sdk.Context) (hyputil.HexAddress, error) {
	var r warptypes.MsgCreateSyntheticTokenResponse
	bz, err := w.call(ctx, &warptypes.MsgCreateSyntheticToken{Owner: w.Alice.String(), OriginMailbox: w.MailboxM0})
	if err != nil {
		return hyputil.HexAddress{}, err
	}
	if err := r.Unmarshal(bz); err != nil {
		return hyputil.HexAddress{}, err
	}
	if _, err = w.call(ctx, &warptypes.MsgEnrollRemoteRouter{Owner: w.Alice.String(), TokenId: r.Id, RemoteRouter: &warptypes.RemoteRouter{
		ReceiverDomain: 1, ReceiverContract: "0x0000000000000000000000000000000000000000000000000000000000000001", Gas: math.ZeroInt()}}); err != nil {
		return hyputil.HexAddress{}, err
	}
	denom := "hyperlane/" + r.Id.String()
	for _, to := range []struct {
		a sdk.AccAddress
		n int64
	}{{w.Orb, 1000}, {w.Escrow0, 5000}, {w.Alice, 1000}} {
		c := sdk.NewCoins(sdk.NewCoin(denom, math.NewInt(to.n)))
		if err := w.App.BankKeeper.MintCoins(ctx, warptypes.ModuleName, c); err != nil {
			return hyputil.HexAddress{}, err
		}
		if err := w.App.BankKeeper.SendCoinsFromModuleToAccount(ctx, warptypes.ModuleName, to.a, c); err != nil {
			return hyputil.HexAddress{}, err
		}
	}
	w.App.TransferKeeper.SetTotalEscrowForDenom(ctx, sdk.NewCoin(denom, math.NewInt(5000))) // ICS-20's own escrow bookkeeping
	return r.Id, nil
}

// kvStoreNames returns the names of all KV stores (sorted), memory/transient stores excluded.
func (w *World) kvStoreNames() []string {
	ks := w.App.kvStoreKeys()
	names := make([]string, 0, len(ks))
	for n := range ks {
		names = append(names, n)
	}
	sort.Strings(names)
	return names
}
