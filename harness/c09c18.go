package simapp

// C09 — a paused action is never executed; payloads without it are unaffected.
// C18 — the passthrough payload size limit in force is enforced.
// Both: E1 to FIXPOINT over the admin alphabet with a reference model in lock-step; probes in every state.

import (
	"bytes"
	"errors"
	"fmt"
	"sort"
	"strings"

	sdk "github.com/cosmos/cosmos-sdk/types"

	orbtypes "github.com/noble-assets/orbiter/v2/types"
	adaptertypes "github.com/noble-assets/orbiter/v2/types/component/adapter"
)

// ------------------------------------------------------------------------------------------ C09

type c09Model struct {
	A map[string]bool // paused action names
	P pauseModel      // thorough: crossed with the C08 quick universe
}

func (m c09Model) String() string {
	var a []string
	for k := range m.A {
		a = append(a, k)
	}
	sort.Strings(a)
	return "A=" + strings.Join(a, ",") + " " + m.P.String()
}

var supportedActions = map[string]bool{"ACTION_FEE": true, "ACTION_SWAP": true}

// actionAlias: spellings of a supported action that the property does not oblige the module to accept or to
// refuse (the protobuf enum NUMBER). If such a message succeeds it must act as the action it denotes; if it
// fails it must change nothing.
var actionAlias = map[string]string{"1": "ACTION_FEE", "2": "ACTION_SWAP"}

// onlySupportedActions: the queries are compared with the model on the actions a payload can contain; whether an
// identifier that no payload can carry (ACTION_UNSUPPORTED, unknown names) may itself be recorded is left open.
func onlySupportedActions(in []string) []string {
	var out []string
	for _, a := range in {
		if supportedActions[a] {
			out = append(out, a)
		}
	}
	return out
}

// applyAction: the successor of m after a SUCCESSFUL (un)pause of the canonical action a.
func (m c09Model) applyAction(rpc, a string) c09Model {
	n := c09Model{A: map[string]bool{}, P: m.P}
	for k := range m.A {
		n.A[k] = true
	}
	if rpc == "PauseAction" {
		n.A[a] = true
	} else {
		delete(n.A, a)
	}
	return n
}

func (m c09Model) predict(w *World, s *MsgSpec) (bool, c09Model, bool) {
	if s.RPC != "PauseAction" && s.RPC != "UnpauseAction" {
		ok, p, resync := m.P.predict(w, s)
		return ok, c09Model{A: m.A, P: p}, resync
	}
	if s.Signer != w.Authority {
		return false, m, false
	}
	if !supportedActions[s.Action] {
		return false, m, true // identifiers whose validity the property does not fix: outcome free, must change nothing we model
	}
	n := c09Model{A: map[string]bool{}, P: m.P}
	for k := range m.A {
		n.A[k] = true
	}
	if s.RPC == "PauseAction" {
		if m.A[s.Action] {
			return false, m, true // redundant: the property only says it changes nothing — it may fail or succeed
		}
		n.A[s.Action] = true
		return true, n, false
	}
	if !m.A[s.Action] {
		return false, m, true // redundant
	}
	delete(n.A, s.Action)
	return true, n, false
}

type c09Probe struct {
	Label   string
	Acts    []string // action names in order
	Pkt     Pkt
	OnInstr bool // needs the swap controller (instrumented stand)
}

func (w *World) c09Probes() []c09Probe {
	orb := w.Orb.String()
	fee := feeActionJSON([]FeeSpec{{To: w.Fee1.String(), Bps: 100}})
	feeAsSwap := fmt.Sprintf(`{"id":"ACTION_SWAP","attributes":{"@type":"%s","fees_info":[{"recipient":"%s","basis_points":{"value":100}}]}}`, urlFee, w.Fee2.String())
	f := w.FwdInternal(w.Bob)
	c := w.FwdCCTP(0)
	mk := func(label string, acts []string, onInstr bool, base string, fwd Fwd, js ...string) c09Probe {
		return c09Probe{label, acts, NewPkt("channel-0", base, "10000", orb, MemoJSON(fwd, js...)), onInstr}
	}
	return []c09Probe{
		mk("none->internal", nil, false, denomUSDC, f),
		mk("none->cctp", nil, false, denomUSDC, c),
		mk("[FEE]->internal", []string{"ACTION_FEE"}, false, denomUSDC, f, fee),
		mk("[FEE]->cctp", []string{"ACTION_FEE"}, false, denomUSDC, c, fee),
		// degenerate but valid fee actions (no entries; an entry that rounds to zero): they contain the action, so a pause of it
		// refuses them like any other
		mk("[FEE(no entries)]->internal", []string{"ACTION_FEE"}, false, denomUSDC, f, fmt.Sprintf(`{"id":"ACTION_FEE","attributes":{"@type":"%s","fees_info":[]}}`, urlFee)),
		mk("[FEE(attributes without fees_info)]->internal", []string{"ACTION_FEE"}, false, denomUSDC, f, fmt.Sprintf(`{"id":"ACTION_FEE","attributes":{"@type":"%s"}}`, urlFee)),
		mk("[FEE(rounds to zero)]->cctp", []string{"ACTION_FEE"}, false, denomUSDC, c, feeActionJSON([]FeeSpec{{To: w.Fee1.String(), Bps: 1}})),
		// deployed chain: ACTION_SWAP has no controller; such payloads are refused whatever the pause state
		mk("[SWAP(no ctrl)]->internal", []string{"ACTION_SWAP"}, false, denomUSDC, f, feeAsSwap),
		mk("[SWAP(no ctrl),FEE]->internal", []string{"ACTION_SWAP", "ACTION_FEE"}, false, denomUSDC, f, feeAsSwap, fee),
		mk("[FEE,SWAP(no ctrl)]->internal", []string{"ACTION_FEE", "ACTION_SWAP"}, false, denomUSDC, f, fee, feeAsSwap),
		// instrumented stand with the harness' swap controller registered
		mk("i:[SWAP]->internal", []string{"ACTION_SWAP"}, true, denomOTH, f, swapActionJSON),
		mk("i:[SWAP,FEE]->internal", []string{"ACTION_SWAP", "ACTION_FEE"}, true, denomOTH, f, swapActionJSON, fee),
		mk("i:[FEE,SWAP]->internal", []string{"ACTION_FEE", "ACTION_SWAP"}, true, denomOTH, f, fee, swapActionJSON),
		mk("i:[FEE,SWAP]->cctp", []string{"ACTION_FEE", "ACTION_SWAP"}, true, denomOTH, c, fee, swapActionJSON),
		mk("i:[FEE]->internal", []string{"ACTION_FEE"}, true, denomOTH, f, fee),
		mk("i:none->internal", nil, true, denomOTH, f),
	}
}

func init() {
	register("C09", checkC09)
	register("C18", checkC18)
}

func checkC09(tier string) *Report {
	rep := NewReport("C09", tier, "model_checking")
	rep.Rule = "all states reachable by pause/unpause-action messages (thorough: crossed with the C08 quick pause universe), fixpoint; every admin op and 13 probe payloads (with/without each action, both orders, deployed controller set and with a second controller registered) in every state; non-trivial = admin op applied or probe refused by an action pause"
	rep.Assumptions = []string{
		"baseapp rollback and IBC discard-on-error emulated (DESIGN §1.3)",
		"probes marked i: run on the instrumented stand with the harness' controller registered under ACTION_SWAP; the admin messages always go through the application's own Msg router (same store)",
	}
	worlds, err := buildWorlds(numWorkers())
	if err != nil {
		rep.HarnessError("fixture: %v", err)
		return rep
	}
	ins := map[*World]*Instr{}
	for _, w := range worlds {
		in, err := NewInstr(w, true)
		if err != nil {
			rep.HarnessError("instr: %v", err)
			return rep
		}
		ins[w] = in
	}
	w0 := worlds[0]
	var alpha []Op
	// decimal strings that denote NO int32 (2^32+1, 2^32+2, 1-2^32): an identifier parser that narrows a wider integer
	// would read them as ACTION_FEE / ACTION_SWAP — they are not aliases (see actionAlias) and must change nothing
	for _, a := range []string{"ACTION_FEE", "ACTION_SWAP", "ACTION_UNSUPPORTED", "ACTION_FOO", "1", "", "4294967297", "4294967298", "-4294967295"} {
		alpha = append(alpha, w0.OpPauseAction(a), w0.OpUnpauseAction(a))
	}
	alpha = append(alpha, withSigner(alpha[0], w0.Mallory.String(), "mallory"), withSigner(alpha[1], w0.Mallory.String(), "mallory"),
		withSigner(alpha[2], w0.Orb.String(), "orb"), withSigner(alpha[0], "", "empty"))
	if tier == "thorough" {
		alpha = append(alpha, c08Alphabet(w0, "quick")...)
	}
	probes := w0.c09Probes()
	// reference observations on the unpaused state W0: "behave exactly as before"
	type obs struct {
		ack []byte
		bal string
	}
	base := map[string]obs{}
	run := func(w *World, ctx sdk.Context, p c09Probe) (RecvResult, string) {
		b := Branch(ctx)
		before := w.Snapshot(b)
		var r RecvResult
		if p.OnInstr {
			r = ins[w].Recv(b, p.Pkt, nil, "")
		} else {
			r = RecvOn(w.Stack, b, p.Pkt)
		}
		bal, sup := LedgerDelta(before, w.Snapshot(b))
		return r, bal.String() + sup.String()
	}
	for _, p := range probes {
		r, d := run(w0, w0.Ctx, p)
		base[p.Label] = obs{r.Ack, d}
	}
	x := &Explorer{Rep: rep, Prefix: alpha, Depth: -1, Revisit: true, RecordGraph: true}
	x.ModelInit = func(w *World) any {
		return c09Model{A: map[string]bool{}, P: pauseModel{P: map[string]bool{}, CC: map[string]bool{}}}
	}
	x.ModelStep = func(w *World, model any, op Op, res OpResult, pre, post sdk.Context) any {
		m := model.(c09Model)
		ok, n, resync := m.predict(w, op.Msg)
		if resync {
			if op.Msg.RPC == "PauseAction" || op.Msg.RPC == "UnpauseAction" {
				if a, ok := actionAlias[op.Msg.Action]; ok && op.Msg.Signer == w.Authority && res.Succeeded() {
					return m.applyAction(op.Msg.RPC, a) // accepted numeric spelling: acts as the action it denotes
				}
				return m // redundant or not-fixed action message: whatever its outcome, the paused-action set stays
			}
			return c09Model{A: m.A, P: m.P.step(w, op.Msg, res.Succeeded(), post)}
		}
		if ok {
			return n
		}
		return m
	}
	x.OnTransition = func(wk *Worker, n Node, op Op, res OpResult, pre, post sdk.Context, pm, qm any) {
		w := wk.W
		m := pm.(c09Model)
		want, _, resync := m.predict(w, op.Msg)
		got := res.Succeeded()
		sig := strings.Join(append(pathLabels(alpha, n.Path), op.Label), " ; ")
		replay := mustJSON(map[string]any{"ops": append(n.Ops(alpha), op)})
		if res.Msg != nil && res.Msg.Panic != "" {
			rep.Violate(Violation{Kind: "admin-panic", Sig: sig, Replay: replay, What: "admin message panicked: " + res.Msg.Panic})
			return
		}
		if !resync && want != got {
			rep.Violate(Violation{Kind: "admin-outcome", Sig: sig, Replay: replay,
				What: fmt.Sprintf("model %s: %s expected success=%v, got %v (err=%q)", m, op.Label, want, got, res.Msg.Err)})
		}
		if !got {
			rep.Outcome("admin-refused")
			if w.StateKey(pre) != w.StateKey(post) {
				rep.Violate(Violation{Kind: "failed-op-changed-state", Sig: sig, Replay: replay, What: fmt.Sprintf("failed %s changed state: %v", op.Label, w.DiffStores(pre, post))})
			}
			return
		}
		rep.Outcome("admin-applied")
		rep.Distinct("op:" + m.String() + ">" + op.Label)
		// after a successful message the paused-action set is exactly the model's (a redundant message that
		// succeeds must have changed nothing)
		gotA, err := w.QPausedActions(post)
		gotA = onlySupportedActions(gotA)
		var wantA []string
		for k := range qm.(c09Model).A {
			wantA = append(wantA, k)
		}
		sort.Strings(wantA)
		sort.Strings(gotA)
		if err != nil || strings.Join(gotA, ",") != strings.Join(wantA, ",") {
			rep.Violate(Violation{Kind: "paused-actions-query", Sig: sig, Replay: replay, What: fmt.Sprintf("after %s PausedActions = %v (err=%v), model %v", op.Label, gotA, err, wantA)})
		}
		rep.Count("traces_validated_against_impl", 1)
	}
	x.OnState = func(wk *Worker, n Node, ctx sdk.Context, model any) {
		w := wk.W
		m := model.(c09Model)
		sigBase := strings.Join(pathLabels(alpha, n.Path), " ; ")
		rep.Sample(map[string]any{"path": pathLabels(alpha, n.Path), "model": m.String()})
		// queries = model
		got, err := w.QPausedActions(ctx)
		got = onlySupportedActions(got)
		var want []string
		for k := range m.A {
			want = append(want, k)
		}
		sort.Strings(want)
		sort.Strings(got)
		if err != nil || strings.Join(got, ",") != strings.Join(want, ",") {
			rep.Violate(Violation{Kind: "paused-actions-query", Sig: sigBase, Replay: mustJSON(map[string]any{"ops": n.Ops(alpha)}),
				What: fmt.Sprintf("PausedActions = %v (err=%v), model %v", got, err, want)})
		}
		for a := range supportedActions {
			g, err := w.QIsActionPaused(ctx, a)
			if err != nil || g != m.A[a] {
				rep.Violate(Violation{Kind: "is-action-paused-query", Sig: sigBase + "|" + a, Replay: mustJSON(map[string]any{"ops": n.Ops(alpha)}),
					What: fmt.Sprintf("IsActionPaused(%s) = %v (err=%v), model %v", a, g, err, m.A[a])})
			}
		}
		for _, p := range probes {
			r, d := run(w, ctx, p)
			rep.Count("probes", 1)
			psig := sigBase + " ; probe " + p.Label
			pkt := p.Pkt
			replay := mustJSON(map[string]any{"ops": append(n.Ops(alpha), Op{Label: p.Label, Pkt: &pkt}), "note": "i: probes need the instrumented stand (the generic replay uses the app's own stack)"})
			if r.Panic != "" {
				rep.Violate(Violation{Kind: "probe-panic", Group: p.Label, Sig: psig, Replay: replay, What: "probe panicked: " + r.Panic})
				continue
			}
			pausedIn := ""
			for _, a := range p.Acts {
				if m.A[a] {
					pausedIn = a
					break
				}
			}
			destProto := "PROTOCOL_INTERNAL|noble"
			if strings.Contains(p.Label, "cctp") {
				destProto = "PROTOCOL_CCTP|0"
			}
			destPaused := m.P.P[strings.Split(destProto, "|")[0]] || m.P.CC[destProto]
			if pausedIn != "" {
				rep.Distinct("refused:" + m.String() + ">" + p.Label)
				rep.Outcome("probe-refused-by-action-pause")
				if r.Success {
					rep.Violate(Violation{Kind: "paused-action-executed", Group: p.Label, Sig: psig, Replay: replay,
						What: fmt.Sprintf("model %s: payload %s contains paused %s but the transfer was executed; ledger delta %s", m, p.Label, pausedIn, d)})
				}
				// no part of the action took effect: trivially by the discard, asserted through the envelope
				continue
			}
			if destPaused {
				rep.Outcome("probe-refused-by-destination-pause")
				if r.Success {
					rep.Violate(Violation{Kind: "paused-destination-executed", Group: p.Label, Sig: psig, Replay: replay, What: "transfer to a paused destination executed"})
				}
				continue
			}
			// payload without a paused action: exactly as in the unpaused state
			rep.Outcome("probe-unaffected")
			b := base[p.Label]
			if !bytes.Equal(b.ack, r.Ack) || b.bal != d {
				rep.Violate(Violation{Kind: "unrelated-payload-affected", Group: p.Label, Sig: psig, Replay: replay,
					What: fmt.Sprintf("model %s: payload %s (no paused action) behaves differently than in the unpaused state: ack %s vs %s; delta %s vs %s", m, p.Label, trunc(string(r.Ack), 160), trunc(string(b.ack), 160), d, b.bal)})
			}
		}
	}
	x.RunOn(worlds)
	x.PrepWorld = func(w *World) error {
		in, err := NewInstr(w, true)
		ins[w] = in
		return err
	}
	x.Tour(len(worlds))
	wantStates := int64(4)
	if tier == "thorough" {
		wantStates = 256
	}
	rep.Guard(rep.Counters["states"] >= wantStates, "expected >= %d states, got %d", wantStates, rep.Counters["states"])
	rep.Guard(rep.Outcomes["probe-refused-by-action-pause"] > 0 && rep.Outcomes["probe-unaffected"] > 0 && rep.Outcomes["admin-applied"] > 0, "outcome classes missing: %v", rep.Outcomes)
	// the base observations must include executed instrumented swap payloads, else the 'i:' probes are vacuous
	for _, l := range []string{"i:[SWAP,FEE]->internal", "i:[FEE,SWAP]->internal", "[FEE]->internal"} {
		rep.Guard(strings.Contains(string(base[l].ack), "result"), "probe %s does not execute on the unpaused state: %s", l, base[l].ack)
	}
	return rep
}

// ------------------------------------------------------------------------------------------ C18

// errGenesisValueRefused: genesis validation refuses the parameter value of an init-genesis-params operation.
var errGenesisValueRefused = errors.New("genesis validation refuses the value")

// c18MustBeSettable: limits the authority (or genesis) must be able to set. The property speaks of "the value most
// recently set"; whether very large values are accepted is left open (a ceiling is a legitimate refusal, after which
// the previous limit stays in force).
func c18MustBeSettable(v uint32) bool { return v <= 8192 }

func (w *World) OpGenesisRoundTrip() Op { return OpEnv("genesis-roundtrip") }
func OpInitGenesisParams(v uint32) Op   { return OpEnv(fmt.Sprintf("init-genesis-params:%d", v)) }

// applyGenesisEnv: export -> validate -> wipe the orbiter store -> InitGenesis (export/import in place), or
// InitGenesis of default genesis with the given parameter value on a wiped store.
func (w *World) applyGenesisEnv(ctx sdk.Context, env string) error {
	k := w.App.OrbiterKeeper
	var g *orbtypes.GenesisState
	if env == "genesis-roundtrip" {
		g = k.ExportGenesis(ctx)
	} else {
		var v uint32
		fmt.Sscanf(env, "init-genesis-params:%d", &v)
		g = k.ExportGenesis(ctx)
		g.AdapterGenesis = &adaptertypes.GenesisState{Params: adaptertypes.Params{MaxPassthroughPayloadSize: v}}
	}
	if err := g.Validate(); err != nil {
		if env != "genesis-roundtrip" {
			return fmt.Errorf("%w: %v", errGenesisValueRefused, err) // validation refuses the menu value: nothing is set
		}
		return fmt.Errorf("exported genesis does not validate: %w", err)
	}
	w.wipeOrbiterStore(ctx)
	var perr error
	func() {
		defer func() {
			if r := recover(); r != nil {
				perr = fmt.Errorf("InitGenesis panicked: %v", r)
			}
		}()
		k.InitGenesis(ctx, *g)
	}()
	return perr
}

func (w *World) wipeOrbiterStore(ctx sdk.Context) {
	st := ctx.KVStore(w.App.GetKey("orbiter"))
	var keys [][]byte
	it := st.Iterator(nil, nil)
	for ; it.Valid(); it.Next() {
		keys = append(keys, append([]byte{}, it.Key()...))
	}
	it.Close()
	for _, k := range keys {
		st.Delete(k)
	}
}

func checkC18(tier string) *Report {
	rep := NewReport("C18", tier, "model_checking")
	rep.Rule = "all parameter states reachable by UpdateParams / genesis (re)initialisation over the value menu, fixpoint (thorough: crossed with the C08 quick pause universe); in every state passthrough lengths around and far from the limit × 3 routes; non-trivial = a probe whose verdict depends on the limit (len>0)"
	rep.Assumptions = []string{
		"baseapp rollback and IBC discard-on-error emulated (DESIGN §1.3)",
		"ICS-20 itself refuses memos longer than 32768 characters; 'within the limit must succeed' is demanded only below that (longer ones must merely not be refused for the orbiter size reason)",
	}
	worlds, err := buildWorlds(numWorkers())
	if err != nil {
		rep.HarnessError("fixture: %v", err)
		return rep
	}
	ins := map[*World]*Instr{}
	for _, w := range worlds {
		in, err := NewInstr(w, false)
		if err != nil {
			rep.HarnessError("instr: %v", err)
			return rep
		}
		ins[w] = in
	}
	w0 := worlds[0]
	vals := []uint32{0, 1, 2, 64, 4294967295}
	var alpha []Op
	for _, v := range vals {
		alpha = append(alpha, w0.OpUpdateParams(v), withSigner(w0.OpUpdateParams(v), w0.Mallory.String(), "mallory"), OpInitGenesisParams(v))
	}
	alpha = append(alpha, w0.OpGenesisRoundTrip())
	// coins already on the orbiter account in the probed denomination (the sweep runs in the same hook as the size check)
	// (idempotent, so that the reachable set stays finite: the account is topped up TO 5 units)
	alpha = append(alpha, OpEnv("ensure-stray-5uusdc"))
	if tier == "thorough" {
		alpha = append(alpha, w0.OpUpdateParams(8192), w0.OpUpdateParams(30000), w0.OpUpdateParams(63), w0.OpUpdateParams(65))
		alpha = append(alpha, w0.OpPauseProtocol("PROTOCOL_CCTP"), w0.OpUnpauseProtocol("PROTOCOL_CCTP"), w0.OpPauseAction("ACTION_FEE"), w0.OpUnpauseAction("ACTION_FEE"))
	}
	lens := []int{0, 1, 2, 3, 63, 64, 65, 8192, 20000, 30000}
	type probe struct {
		label string
		n     int
		pkt   Pkt
		route string
	}
	var probes []probe
	// the length that counts is the number of BYTES of the payload (a bytes field): every length with contents whose byte,
	// character and UTF-16 lengths differ (seed C18g measured characters), with NUL bytes and with text
	fill := func(unit string, n int) []byte {
		out := bytes.Repeat([]byte(unit), n/len(unit))
		return append(out, bytes.Repeat([]byte{'a'}, n-len(out))...)
	}
	for _, n := range lens {
		for ci, unit := range []string{"\xab", "a", "é", "😀", "\x00"} {
			if n == 0 && ci > 0 {
				continue
			}
			pay := fill(unit, n)
			for _, f := range []Fwd{w0.FwdCCTP(0), w0.FwdHyp(1), w0.FwdInternal(w0.Bob)} {
				f.Passthrough = pay
				if n == 0 {
					f.Passthrough = nil
				}
				probes = append(probes, probe{fmt.Sprintf("%s passthrough=%dB of %q", f, n, unit), n, NewPkt("channel-0", denomUSDC, "1000", w0.Orb.String(), MemoJSON(f)), f.Kind})
			}
		}
	}
	x := &Explorer{Rep: rep, Prefix: alpha, Depth: -1, Revisit: true, RecordGraph: true}
	x.ModelInit = func(w *World) any { return uint32(0) }
	x.ModelStep = func(w *World, model any, op Op, res OpResult, pre, post sdk.Context) any {
		if !res.Succeeded() {
			return model
		}
		if op.Msg != nil && op.Msg.RPC == "UpdateParams" && op.Msg.Signer == w.Authority {
			return op.Msg.MaxSize
		}
		if strings.HasPrefix(op.Env, "init-genesis-params:") {
			var v uint32
			fmt.Sscanf(op.Env, "init-genesis-params:%d", &v)
			return v
		}
		return model
	}
	x.OnTransition = func(wk *Worker, n Node, op Op, res OpResult, pre, post sdk.Context, pm, qm any) {
		w := wk.W
		sig := strings.Join(append(pathLabels(alpha, n.Path), op.Label), " ; ")
		replay := mustJSON(map[string]any{"ops": append(n.Ops(alpha), op)})
		if op.Msg != nil {
			wantOK := op.Msg.Signer == w.Authority
			// (the pause/unpause operations of the thorough alphabet only vary the surrounding state; their own
			// outcomes — a redundant pause fails — are C08/C09's subject)
			if op.Msg.RPC == "UpdateParams" && wantOK && !c18MustBeSettable(op.Msg.MaxSize) && !res.Succeeded() {
				rep.Outcome("large-limit-refused-previous-stays")
			} else if op.Msg.RPC == "UpdateParams" && res.Succeeded() != wantOK {
				rep.Violate(Violation{Kind: "admin-outcome", Sig: sig, Replay: replay, What: fmt.Sprintf("%s: expected success=%v got %v (%s)", op.Label, wantOK, res.Succeeded(), res.Msg.Err)})
			}
			if !res.Succeeded() && w.StateKey(pre) != w.StateKey(post) {
				rep.Violate(Violation{Kind: "failed-op-changed-state", Sig: sig, Replay: replay, What: "unauthorised or failed update changed state"})
			}
		} else if res.Err != "" {
			var v uint32
			if n, _ := fmt.Sscanf(op.Env, "init-genesis-params:%d", &v); n == 1 && !c18MustBeSettable(v) && strings.Contains(res.Err, errGenesisValueRefused.Error()) {
				rep.Outcome("large-limit-refused-previous-stays")
				if w.StateKey(pre) != w.StateKey(post) {
					rep.Violate(Violation{Kind: "failed-op-changed-state", Sig: sig, Replay: replay, What: "refused genesis value changed state"})
				}
			} else {
				rep.Violate(Violation{Kind: "genesis-op-failed", Sig: sig, Replay: replay, What: op.Label + ": " + res.Err})
			}
		} else if op.Env == "genesis-roundtrip" && w.StateKey(pre) != w.StateKey(post) {
			rep.Violate(Violation{Kind: "genesis-roundtrip-changed-state", Sig: sig, Replay: replay, What: fmt.Sprintf("export -> init changed the stores: %v", w.DiffStores(pre, post))})
		}
		rep.Count("traces_validated_against_impl", 1)
	}
	stateCheck := func(w *World, path []string, pathOps []Op, ctx sdk.Context, limit uint32, defined bool) {
		sigBase := strings.Join(path, " ; ")
		if defined {
			q, err := w.QParams(ctx)
			if err != nil || q != limit {
				rep.Violate(Violation{Kind: "params-query", Sig: sigBase, Replay: mustJSON(map[string]any{"ops": pathOps}), What: fmt.Sprintf("Params query = %d (err=%v), last value set is %d", q, err, limit)})
			}
		}
		cctpPaused, _ := w.QIsProtocolPaused(ctx, "PROTOCOL_CCTP")
		for _, p := range probes {
			b := Branch(ctx)
			r := ins[w].Recv(b, p.pkt, nil, "")
			rep.Count("probes", 1)
			psig := fmt.Sprintf("%s ; probe %s (limit %d)", sigBase, p.label, limit)
			pkt := p.pkt
			replay := mustJSON(map[string]any{"ops": append(append([]Op{}, pathOps...), Op{Label: p.label, Pkt: &pkt}),
				"expect": []replayExpect{{Kind: "no_panic", Want: true}, {Kind: "last_success", Want: uint64(p.n) <= uint64(limit) && len(p.pkt.Memo) <= 32768}}})
			innerCalled := len(ins[w].Rec.Find("inner.OnRecvPacket")) > 0
			// the same probe on the APPLICATION's own stack: the administrative history ran through the application's keeper, the
			// instrumented stand is a second instance of the module over the same stores — whatever a keeper remembers outside the
			// stores (a cached limit, seed C19h) exists in one of them only, so both are judged, and they must agree
			rApp := w.Recv(Branch(ctx), p.pkt)
			rep.Count("probes", 1)
			if p.n > 0 {
				rep.Distinct(fmt.Sprintf("limit=%d|%s", limit, p.label))
			}
			over := uint64(p.n) > uint64(limit)
			for _, st := range []struct {
				name string
				r    RecvResult
			}{{"second instance of the module over the same stores", r}, {"the application's own stack", rApp}} {
				r, psig := st.r, psig+" ["+st.name+"]"
				if r.Panic != "" {
					rep.Violate(Violation{Kind: "probe-panic", Group: p.label, Sig: psig, Replay: replay, What: "probe panicked: " + r.Panic})
					continue
				}
				// The verdicts do not depend on the wording of the refusal: an oversize payload must be refused
				// before the wrapped application is called; a payload within the limit must be executed whenever
				// nothing else can refuse it (memo below ICS-20's own cap, route not paused) — which makes "refused
				// for the size reason" impossible without reading the reason.
				switch {
				case over:
					rep.Outcome("refused-for-size")
					if r.Success {
						rep.Violate(Violation{Kind: "oversize-not-refused", Group: p.label, Sig: psig, Replay: replay,
							What: fmt.Sprintf("passthrough of %d bytes with limit %d was executed (success ack) on %s", p.n, limit, st.name)})
					}
					if innerCalled {
						// where the check sits relative to the wrapped application is not fixed by the property (the
						// error acknowledgement makes IBC discard whatever the application did): recorded, not judged
						rep.Outcome("refused-for-size-after-ics20-ran")
					}
				case len(p.pkt.Memo) <= 32768 && !(p.route == "cctp" && cctpPaused):
					rep.Outcome("within-limit-executed")
					if !r.Success {
						rep.Violate(Violation{Kind: "within-limit-refused", Group: p.label, Sig: psig, Replay: replay,
							What: fmt.Sprintf("passthrough of %d bytes with limit %d refused on %s: %s", p.n, limit, st.name, trunc(r.AckErr(), 300))})
					}
				default:
					rep.Outcome("within-limit-refused-by-ics20-memo-length-or-pause")
				}
			}
			if r.Panic == "" && rApp.Panic == "" && r.Success != rApp.Success {
				rep.Violate(Violation{Kind: "two-instances-over-the-same-stores-disagree", Group: p.label, Sig: psig, Replay: replay,
					What: fmt.Sprintf("the application's stack answered success=%v, a second instance of the module over the same stores success=%v: the verdict depends on state outside the stores [%s]", rApp.Success, r.Success, psig)})
			}
		}
	}
	x.OnState = func(wk *Worker, n Node, ctx sdk.Context, model any) {
		rep.Sample(map[string]any{"path": pathLabels(alpha, n.Path), "limit_in_force": model.(uint32)})
		stateCheck(wk.W, pathLabels(alpha, n.Path), n.Ops(alpha), ctx, model.(uint32), true)
		if len(n.Path) <= 1 {
			// "params never set": empty the orbiter store on a branch -> fail-closed limit 0
			b := Branch(ctx)
			wk.W.wipeOrbiterStore(b)
			stateCheck(wk.W, append(pathLabels(alpha, n.Path), "WIPE(orbiter store)"), n.Ops(alpha), b, 0, false)
		}
	}
	x.RunOn(worlds)
	x.PrepWorld = func(w *World) error {
		in, err := NewInstr(w, false)
		ins[w] = in
		return err
	}
	x.Tour(len(worlds))
	must := 0
	for _, v := range vals {
		if c18MustBeSettable(v) {
			must++
		}
	}
	rep.Guard(rep.Counters["states"] >= int64(must), "expected >= %d states, got %d", must, rep.Counters["states"])
	rep.Guard(rep.Outcomes["refused-for-size"] > 0 && rep.Outcomes["within-limit-executed"] > 0, "outcome classes missing: %v", rep.Outcomes)
	return rep
}
