package simapp

// C13 — statistics queries and pagination are faithful views of the ledger.
// E2 over requests × ledgers: ledgers are produced by the real statistics update path (through transfers on
// the full app and through Dispatcher.UpdateStats for non-IBC sources); every request of the 6 dispatcher
// RPCs (filters × limits × offsets × next-key walks × reverse × count_total, direct lookups incl. near
// misses) is answered through the app's gRPC query router and compared with the exported genesis.

import (
	gomath "math"
	"fmt"
	"sort"
	"strings"

	"cosmossdk.io/math"
	sdk "github.com/cosmos/cosmos-sdk/types"
	"github.com/cosmos/cosmos-sdk/types/query"
	"google.golang.org/grpc/codes"
	"google.golang.org/grpc/status"

	dispatchertypes "github.com/noble-assets/orbiter/v2/types/component/dispatcher"
	fwdtypes "github.com/noble-assets/orbiter/v2/types/controller/forwarding"
	"github.com/noble-assets/orbiter/v2/types/core"
)

type statUpdate struct {
	SrcProto core.ProtocolID
	SrcCP    string
	Fwd      string // "cctp:<d>" | "hyp:<d>" | "internal"
	Denom    string
	Amt      int64
}

func (u statUpdate) String() string {
	return fmt.Sprintf("%d:%s->%s %d%s", int32(u.SrcProto), u.SrcCP, u.Fwd, u.Amt, u.Denom)
}

func (w *World) applyStatUpdate(ctx sdk.Context, u statUpdate) error {
	ta, err := core.NewTransferAttributes(u.SrcProto, u.SrcCP, u.Denom, math.NewInt(u.Amt))
	if err != nil {
		return err
	}
	ta.SetDestinationAmount(math.NewInt(u.Amt - u.Amt/10))
	if i := strings.Index(u.Fwd, ">"); i >= 0 {
		ta.SetDestinationDenom(u.Fwd[i+1:])
	}
	var f *core.Forwarding
	var d uint32
	switch {
	case strings.HasPrefix(u.Fwd, "cctp:"):
		fmt.Sscanf(u.Fwd, "cctp:%d", &d)
		f, err = fwdtypes.NewCCTPForwarding(d, nb(32, 9), nil, nil)
	case strings.HasPrefix(u.Fwd, "hyp:"):
		fmt.Sscanf(u.Fwd, "hyp:%d", &d)
		f, err = fwdtypes.NewHyperlaneForwarding(w.TokenT0.Bytes(), d, nb(32, 5), nil, "", math.ZeroInt(), sdk.NewCoin(denomUSDC, math.ZeroInt()), nil)
	default:
		f, err = fwdtypes.NewInternalForwarding(w.Bob.String())
	}
	if err != nil {
		return err
	}
	return w.App.OrbiterKeeper.Dispatcher().UpdateStats(ctx, ta, f)
}

func c13UpdateMenu() []statUpdate {
	return []statUpdate{
		{1, "channel-0", "cctp:1", "uusdc", 100}, {1, "channel-0", "cctp:10", "uusdc", 200}, {1, "channel-0", "cctp:100", "uusdc", 300},
		{1, "channel-0", "hyp:1", "uusdc", 400}, {1, "channel-0", "internal", "uusdc", 500}, {1, "channel-0", "internal", "uother", 50},
		{1, "channel-1", "cctp:1", "uusdc", 600}, {1, "channel-10", "cctp:1", "uusdc", 700}, {1, "channel-1", "hyp:10", "uusdc", 800},
		{2, "0", "internal", "uusdc", 900}, {2, "1", "hyp:2", "uusdc", 1000}, {3, "1", "cctp:2", "uusdc", 1100}, {3, "10", "internal", "uusdc", 1200},
		{4, "noble", "cctp:1", "uusdc", 1300}, {1, "channel-0", "cctp:1", "uusdc", 11}, // last one updates an existing entry
		// denominations on ONE route of which one is a prefix of the other (the denom is the last, unterminated key part)
		{1, "channel-0", "cctp:1", "uusdcx", 21}, {1, "channel-0", "internal", "uusd", 22},
		// an action changed the denomination ("route>denomination left by the last action"): two entries on the route, one with
		// nothing outgoing, one with nothing incoming — both non-zero, both must be found by the direct lookup (seed C13i)
		{1, "channel-0", "internal>uother", "uusdc", 40}, {2, "1", "cctp:1>uusdc", "ueure", 70},
	}
}

type amtRow struct {
	SP, DP int32
	SC, DC string
	Denom  string
	In, Out string
}

func (r amtRow) key() string { return fmt.Sprintf("%d:%s|%d:%s|%s", r.SP, r.SC, r.DP, r.DC, r.Denom) }
func (r amtRow) full() string { return r.key() + fmt.Sprintf(" in=%s out=%s", r.In, r.Out) }

type cntRow struct {
	SP, DP int32
	SC, DC string
	N      uint64
}

func (r cntRow) key() string  { return fmt.Sprintf("%d:%s|%d:%s", r.SP, r.SC, r.DP, r.DC) }
func (r cntRow) full() string { return r.key() + fmt.Sprintf(" n=%d", r.N) }

func amtRowOf(e *dispatchertypes.DispatchedAmountEntry) amtRow {
	return amtRow{int32(e.SourceId.ProtocolId), int32(e.DestinationId.ProtocolId), e.SourceId.CounterpartyId, e.DestinationId.CounterpartyId, e.Denom,
		e.AmountDispatched.Incoming.String(), e.AmountDispatched.Outgoing.String()}
}
func cntRowOf(e *dispatchertypes.DispatchCountEntry) cntRow {
	return cntRow{int32(e.SourceId.ProtocolId), int32(e.DestinationId.ProtocolId), e.SourceId.CounterpartyId, e.DestinationId.CounterpartyId, e.Count}
}

// listing request through the query router; returns rows (as strings), page response, error
func (w *World) qList(ctx sdk.Context, rpc, proto string, page *query.PageRequest) ([]string, *query.PageResponse, error) {
	if strings.HasPrefix(rpc, "DispatchedAmounts") {
		var r dispatchertypes.QueryDispatchedAmountsResponse
		err := w.Query(ctx, qDis+rpc, &dispatchertypes.QueryDispatchedAmountsByProtocolIDRequest{ProtocolId: proto, Pagination: page}, &r)
		var out []string
		for _, e := range r.Amounts {
			out = append(out, amtRowOf(e).full())
		}
		return out, r.Pagination, err
	}
	var r dispatchertypes.QueryDispatchedCountsResponse
	err := w.Query(ctx, qDis+rpc, &dispatchertypes.QueryDispatchedCountsByProtocolIDRequest{ProtocolId: proto, Pagination: page}, &r)
	var out []string
	for _, e := range r.Counts {
		out = append(out, cntRowOf(e).full())
	}
	return out, r.Pagination, err
}

func init() { register("C13", checkC13) }

func checkC13(tier string) *Report {
	rep := NewReport("C13", tier, "model_checking")
	full := tier == "thorough"
	rep.Rule = "ledgers: all states reachable by <=D statistics updates over a 15-update menu (sources IBC/CCTP/Hyperlane/Internal, destinations with prefix-related counterparties 1/10/100, two denoms, one update of an existing entry) through the real UpdateStats path, plus ledgers reached by real transfers; requests: 4 listing RPCs × 7 protocol filters × limits × offsets × next-key walks × reverse × count_total, and direct lookups for every key and near-miss keys. Non-trivial = (ledger, request) pairs whose expected answer is non-empty"
	rep.Assumptions = []string{
		"the expected ORDER of a listing is taken from the full single-page forward listing (which must itself be exactly the matching set, duplicate-free); every other request (offset pages, next-key walks with every limit, reverse) must be consistent with it",
		"non-IBC sources are produced by calling the repository's Dispatcher.UpdateStats with other source identifiers (the deployed adapter only produces IBC sources)",
	}
	worlds, err := buildWorlds(numWorkers())
	if err != nil {
		rep.HarnessError("fixture: %v", err)
		return rep
	}
	menu := c13UpdateMenu()
	var alpha []Op
	for i, u := range menu {
		alpha = append(alpha, Op{Label: "stat " + u.String(), Env: fmt.Sprintf("stat-update:%d", i)})
	}
	depth := 2
	if full {
		depth = 4
	}
	x := &Explorer{Rep: rep, Prefix: alpha, Depth: depth, Budget: budgetFromEnv(map[string]int{"quick": 8, "thorough": 90}[tier])}
	x.OnState = func(wk *Worker, n Node, ctx sdk.Context, _ any) {
		// the exported ledger is the reference every request is judged against — so it must itself be the fold of the updates
		// that produced this state (otherwise a listing and the export could lose the same entry together and agree)
		in, out, cnt := map[string]int64{}, map[string]int64{}, map[string]uint64{}
		for _, k := range n.Path {
			u := menu[k]
			dst := "4:noble"
			var d uint32
			if strings.HasPrefix(u.Fwd, "cctp:") {
				fmt.Sscanf(u.Fwd, "cctp:%d", &d)
				dst = fmt.Sprintf("2:%d", d)
			} else if strings.HasPrefix(u.Fwd, "hyp:") {
				fmt.Sscanf(u.Fwd, "hyp:%d", &d)
				dst = fmt.Sprintf("3:%d", d)
			}
			route := fmt.Sprintf("%d:%s|%s", int32(u.SrcProto), u.SrcCP, dst)
			in[route+"|"+u.Denom] += u.Amt
			if i := strings.Index(u.Fwd, ">"); i >= 0 && u.Fwd[i+1:] != u.Denom {
				in[route+"|"+u.Fwd[i+1:]] += 0
				out[route+"|"+u.Fwd[i+1:]] += u.Amt - u.Amt/10
			} else {
				out[route+"|"+u.Denom] += u.Amt - u.Amt/10
			}
			cnt[route]++
		}
		var want []string
		for k := range in {
			want = append(want, fmt.Sprintf("A %s in=%d out=%d", k, in[k], out[k]))
		}
		for k, v := range cnt {
			want = append(want, fmt.Sprintf("C %s n=%d", k, v))
		}
		sort.Strings(want)
		got, _ := wk.W.exportedStats(ctx, nil)
		if strings.Join(got, "\n") != strings.Join(want, "\n") {
			rep.Violate(Violation{Kind: "exported-ledger-is-not-the-fold-of-the-updates", Sig: strings.Join(pathLabels(alpha, n.Path), " ; "), Replay: mustJSON(map[string]any{"ops": n.Ops(alpha)}),
				What: fmt.Sprintf("after the updates [%s] the exported ledger is %v, the fold of the updates is %v", strings.Join(pathLabels(alpha, n.Path), " ; "), got, want)})
			return
		}
		c13CheckLedger(rep, wk.W, ctx, strings.Join(pathLabels(alpha, n.Path), " ; "), n.Ops(alpha))
	}
	x.RunOn(worlds)
	// the full menu applied at once (largest ledger), and ledgers reached by real transfers
	w := worlds[0]
	big := Branch(w.Ctx)
	var bigOps []Op
	for i := range menu {
		w.Apply(big, alpha[i])
		bigOps = append(bigOps, alpha[i])
		if i%3 == 2 || i == len(menu)-1 {
			c13CheckLedger(rep, w, big, fmt.Sprintf("first %d updates of the menu", i+1), append([]Op{}, bigOps...))
		}
	}
	tops, _ := w.statsPrefix()
	tctx := Branch(w.Ctx)
	var tOps []Op
	for i, op := range tops {
		if op.Pkt == nil {
			continue
		}
		w.Apply(tctx, op)
		tOps = append(tOps, op)
		if i%2 == 1 {
			c13CheckLedger(rep, w, tctx, fmt.Sprintf("transfers: first %d ops of the C12 alphabet", i+1), append([]Op{}, tOps...))
		}
	}
	rep.Guard(rep.Outcomes["listing-ok"] > 1000 && rep.Outcomes["direct-lookup-ok"] > 100, "outcome classes missing: %v", rep.Outcomes)
	rep.Guard(rep.Counters["states"] >= 100, "too few ledgers: %d", rep.Counters["states"])
	return rep
}

func (w *World) applyStatEnv(ctx sdk.Context, env string) error {
	var i int
	fmt.Sscanf(env, "stat-update:%d", &i)
	m := c13UpdateMenu()
	if i < 0 || i >= len(m) {
		return fmt.Errorf("bad stat update index")
	}
	return w.applyStatUpdate(ctx, m[i])
}

func c13CheckLedger(rep *Report, w *World, ctx sdk.Context, ledgerSig string, ops []Op) {
	g := w.App.OrbiterKeeper.ExportGenesis(ctx).DispatcherGenesis
	var amts []amtRow
	var cnts []cntRow
	for i := range g.DispatchedAmounts {
		amts = append(amts, amtRowOf(&g.DispatchedAmounts[i]))
	}
	for i := range g.DispatchedCounts {
		cnts = append(cnts, cntRowOf(&g.DispatchedCounts[i]))
	}
	replay := mustJSON(map[string]any{"ops": ops})
	viol := func(kind, sig, what string) {
		rep.Violate(Violation{Kind: kind, Group: sig[:strings.Index(sig+" ", " ")], Sig: sig + " @ " + ledgerSig, Replay: replay, What: what + "  [ledger: " + ledgerSig + "]"})
	}
	if len(rep.Samples) < 6 && len(amts) >= 2 {
		rep.Sample(map[string]any{"ledger_updates": ledgerSig, "amount_entries": len(amts), "count_entries": len(cnts)})
	}
	protoNames := []string{"PROTOCOL_IBC", "PROTOCOL_CCTP", "PROTOCOL_HYPERLANE", "PROTOCOL_INTERNAL"}
	// ---- direct lookups: every key + near misses
	type dk struct{ sp, dp int32; sc, dc, denom string }
	keys := map[dk]bool{}
	for _, a := range amts {
		keys[dk{a.SP, a.DP, a.SC, a.DC, a.Denom}] = true
		keys[dk{a.SP, a.DP, a.SC, a.DC, "uother"}] = true
		keys[dk{a.SP, a.DP, a.SC, a.DC, a.Denom + "x"}] = true
		if len(a.Denom) > 1 {
			keys[dk{a.SP, a.DP, a.SC, a.DC, a.Denom[:len(a.Denom)-1]}] = true // a proper prefix of a recorded denom
			keys[dk{a.SP, a.DP, a.SC, a.DC, a.Denom[:1]}] = true
		}
		if len(a.DC) > 1 {
			keys[dk{a.SP, a.DP, a.SC, a.DC[:len(a.DC)-1], a.Denom}] = true // ... of a recorded destination counterparty
		}
		if len(a.SC) > 1 {
			keys[dk{a.SP, a.DP, a.SC[:len(a.SC)-1], a.DC, a.Denom}] = true // ... of a recorded source counterparty
		}
		keys[dk{a.SP, a.DP, a.SC + "0", a.DC, a.Denom}] = true
		keys[dk{a.SP, a.DP, a.SC, a.DC + "0", a.Denom}] = true
		if a.SP != 1 && a.DP != 1 {
			keys[dk{a.DP, a.SP, a.DC, a.SC, a.Denom}] = true // swapped source / destination
		}
	}
	for k := range keys {
		if protoNameOf[int(k.sp)] == "" || protoNameOf[int(k.dp)] == "" {
			continue
		}
		want := ""
		for _, a := range amts {
			if a.SP == k.sp && a.DP == k.dp && a.SC == k.sc && a.DC == k.dc && a.Denom == k.denom {
				want = a.In + "/" + a.Out
			}
		}
		in, out, found, err := w.QDispatchedAmount(ctx, protoNameOf[int(k.sp)], k.sc, protoNameOf[int(k.dp)], k.dc, k.denom)
		rep.Count("probes", 1)
		got := ""
		if found {
			got = in + "/" + out
		}
		if err != nil && want == "" && status.Code(err) == codes.InvalidArgument {
			continue // a near-miss key that is not a valid identifier at all
		}
		if err != nil || got != want {
			viol("direct-lookup-wrong", fmt.Sprintf("DispatchedAmounts %v", k), fmt.Sprintf("direct lookup %v returned %q (err=%v), ledger has %q", k, got, err, want))
			continue
		}
		if want != "" {
			rep.Distinct("direct:" + ledgerSig + fmt.Sprint(k))
		}
		rep.Outcome("direct-lookup-ok")
	}
	for _, c := range cnts {
		for _, dc := range []string{c.DC, c.DC + "0"} {
			n, found, err := w.QDispatchedCount(ctx, protoNameOf[int(c.SP)], c.SC, protoNameOf[int(c.DP)], dc)
			rep.Count("probes", 1)
			var want uint64
			for _, c2 := range cnts {
				if c2.SP == c.SP && c2.DP == c.DP && c2.SC == c.SC && c2.DC == dc {
					want = c2.N
				}
			}
			if err != nil && want == 0 && status.Code(err) == codes.InvalidArgument {
				continue
			}
			if err != nil || (found && n != want) || (!found && want != 0) {
				viol("direct-lookup-wrong", fmt.Sprintf("DispatchedCounts %s->%d:%s", c.key(), c.DP, dc), fmt.Sprintf("direct count lookup returned %d found=%v err=%v, ledger has %d", n, found, err, want))
				continue
			}
			rep.Outcome("direct-lookup-ok")
		}
	}
	// ---- listings
	type listing struct {
		rpc    string
		match  func(proto int32) []string // expected set (full rows)
	}
	mk := func(rpc string) listing {
		return listing{rpc, func(p int32) []string {
			var out []string
			if strings.HasPrefix(rpc, "DispatchedAmounts") {
				for _, a := range amts {
					if (strings.Contains(rpc, "Source") && a.SP == p) || (strings.Contains(rpc, "Destination") && a.DP == p) {
						out = append(out, a.full())
					}
				}
			} else {
				for _, c := range cnts {
					if (strings.Contains(rpc, "Source") && c.SP == p) || (strings.Contains(rpc, "Destination") && c.DP == p) {
						out = append(out, c.full())
					}
				}
			}
			sort.Strings(out)
			return out
		}}
	}
	for _, l := range []listing{mk("DispatchedAmountsBySourceProtocolID"), mk("DispatchedAmountsByDestinationProtocolID"), mk("DispatchedCountsBySourceProtocolID"), mk("DispatchedCountsByDestinationProtocolID")} {
		for _, bad := range []string{"PROTOCOL_UNSUPPORTED", "PROTOCOL_FOO", ""} {
			rows, _, err := w.qList(ctx, l.rpc, bad, nil)
			rep.Count("probes", 1)
			if err == nil && len(rows) > 0 {
				viol("listing-for-invalid-filter", l.rpc+" "+bad, fmt.Sprintf("%s with filter %q returned %d rows", l.rpc, bad, len(rows)))
			}
		}
		for pi, pn := range protoNames {
			p := int32(pi + 1)
			want := l.match(p)
			sigBase := l.rpc + " " + pn
			// reference order: one large forward page
			R, pr, err := w.qList(ctx, l.rpc, pn, &query.PageRequest{Limit: 1000, CountTotal: true})
			rep.Count("probes", 1)
			if err != nil {
				viol("listing-error", sigBase, fmt.Sprintf("%s(%s) failed: %v", l.rpc, pn, err))
				continue
			}
			if s := sortedCopy(R); strings.Join(s, "\n") != strings.Join(want, "\n") {
				viol("listing-not-the-matching-set", sigBase, fmt.Sprintf("%s(%s) returned %v, the matching entries are %v", l.rpc, pn, R, want))
				continue
			}
			if pr == nil || pr.Total != uint64(len(want)) {
				viol("listing-total-wrong", sigBase, fmt.Sprintf("%s(%s) count_total says %v, there are %d matching entries", l.rpc, pn, pr, len(want)))
			}
			if len(want) > 0 {
				rep.Distinct(ledgerSig + "|" + sigBase)
			}
			n := len(R)
			// reverse reference order: one large reverse page. The property demands that a reverse listing visits
			// each matching entry exactly once — not that it is the mirror image of the forward order — so only
			// the multiset is compared with R; offset pages and walks in reverse are judged against this order.
			rev, prr, err := w.qList(ctx, l.rpc, pn, &query.PageRequest{Limit: 1000, Reverse: true, CountTotal: true})
			rep.Count("probes", 1)
			if err != nil || strings.Join(sortedCopy(rev), "\n") != strings.Join(want, "\n") {
				viol("listing-not-the-matching-set", sigBase+" reverse", fmt.Sprintf("%s(%s, reverse) returned %v err=%v, the matching entries are %v", l.rpc, pn, rev, err, want))
				continue
			}
			if prr == nil || prr.Total != uint64(len(want)) {
				viol("listing-total-wrong", sigBase+" reverse", fmt.Sprintf("%s(%s, reverse) count_total says %v, there are %d matching entries", l.rpc, pn, prr, len(want)))
			}
			// default page (limit 0 -> 100) and nil pagination
			for _, pg := range []*query.PageRequest{nil, {}} {
				rows, _, err := w.qList(ctx, l.rpc, pn, pg)
				rep.Count("probes", 1)
				if err != nil || strings.Join(rows, "\n") != strings.Join(R, "\n") {
					viol("listing-default-page-wrong", sigBase, fmt.Sprintf("%s(%s) default page returned %v err=%v, expected %v", l.rpc, pn, rows, err, R))
				}
			}
			for _, reverse := range []bool{false, true} {
				ref := R
				if reverse {
					ref = rev
				}
				// offset pages
				for _, lim := range []uint64{1, 2, uint64(n) + 1} {
					for off := 0; off <= n+1; off++ {
						rows, pr, err := w.qList(ctx, l.rpc, pn, &query.PageRequest{Offset: uint64(off), Limit: lim, Reverse: reverse, CountTotal: true})
						rep.Count("probes", 1)
						lo, hi := off, off+int(lim)
						if lo > n {
							lo = n
						}
						if hi > n {
							hi = n
						}
						exp := ref[lo:hi]
						if err != nil || strings.Join(rows, "\n") != strings.Join(exp, "\n") {
							viol("offset-page-wrong", fmt.Sprintf("%s offset=%d limit=%d reverse=%v", sigBase, off, lim, reverse),
								fmt.Sprintf("%s(%s, offset=%d, limit=%d, reverse=%v) returned %v err=%v, expected %v", l.rpc, pn, off, lim, reverse, rows, err, exp))
							continue
						}
						// (for an offset beyond the last entry the SDK paginator reports no total; the property speaks
						// about walks over the entries, so the total is only judged for offsets within the listing)
						if off <= n && (pr == nil || pr.Total != uint64(n)) {
							viol("listing-total-wrong", fmt.Sprintf("%s offset=%d limit=%d reverse=%v", sigBase, off, lim, reverse),
								fmt.Sprintf("%s(%s, offset=%d, limit=%d, reverse=%v) count_total says %v, there are %d matching entries", l.rpc, pn, off, lim, reverse, pr, n))
							continue
						}
						rep.Outcome("listing-ok")
					}
				}
				// large page sizes (at, above and far above the default page of 100, up to 2^64-1), with every offset: the
				// module may clamp such a page (a shorter page is fine) or refuse the request, but what it returns must
				// start AT the requested offset, in listing order, without gaps, and make progress
				for _, lim := range []uint64{100, 101, 1000, 1 << 32, gomath.MaxUint64} {
					for off := 0; off <= n+1; off++ {
						rows, _, err := w.qList(ctx, l.rpc, pn, &query.PageRequest{Offset: uint64(off), Limit: lim, Reverse: reverse, CountTotal: off%2 == 0})
						rep.Count("probes", 1)
						if err != nil {
							rep.Outcome("large-limit-refused")
							continue
						}
						lo := off
						if lo > n {
							lo = n
						}
						rest := ref[lo:]
						ok := len(rows) <= len(rest) && (len(rows) > 0 || len(rest) == 0)
						for i := 0; ok && i < len(rows); i++ {
							ok = rows[i] == rest[i]
						}
						if !ok {
							viol("offset-page-wrong", fmt.Sprintf("%s offset=%d limit=%d reverse=%v", sigBase, off, lim, reverse),
								fmt.Sprintf("%s(%s, offset=%d, limit=%d, reverse=%v) returned %v, expected a non-empty run of the listing starting at offset %d: %v", l.rpc, pn, off, lim, reverse, rows, off, rest))
							continue
						}
						rep.Outcome("listing-ok")
					}
				}
				// next-key walks to exhaustion
				for _, lim := range []uint64{1, 2, 3} {
					var got []string
					var key []byte
					okWalk := true
					for step := 0; step < n+5; step++ {
						rows, pr, err := w.qList(ctx, l.rpc, pn, &query.PageRequest{Key: key, Limit: lim, Reverse: reverse})
						rep.Count("probes", 1)
						if err != nil {
							viol("next-key-walk-error", fmt.Sprintf("%s limit=%d reverse=%v", sigBase, lim, reverse), fmt.Sprintf("%s(%s) walk failed at step %d: %v", l.rpc, pn, step, err))
							okWalk = false
							break
						}
						got = append(got, rows...)
						if pr == nil || len(pr.NextKey) == 0 {
							break
						}
						key = pr.NextKey
					}
					if !okWalk {
						continue
					}
					_ = ref
					if strings.Join(sortedCopy(got), "\n") != strings.Join(want, "\n") {
						viol("next-key-walk-wrong", fmt.Sprintf("%s limit=%d reverse=%v last-key-component-prefix-related=%v", sigBase, lim, reverse, lastComponentPrefixRelated(R)),
							fmt.Sprintf("following next-keys on %s(%s, limit=%d, reverse=%v) visited %v, expected each matching entry exactly once: %v", l.rpc, pn, lim, reverse, got, want))
						continue
					}
					rep.Outcome("listing-ok")
				}
			}
		}
	}
	rep.Count("traces_validated_against_impl", 1)
}

// lastComponentPrefixRelated: two rows of the listing have store keys that differ only in their LAST (raw,
// unterminated) string component and one of those is a proper prefix of the other, e.g. destination
// counterparties "1" and "10" on the same route, or denoms "uusdc" and "uusdcx" on the same route.
func lastComponentPrefixRelated(rows []string) bool {
	type kk struct{ head, last string }
	var ks []kk
	for _, r := range rows {
		key := r[:strings.Index(r, " ")]
		i := strings.LastIndexAny(key, "|:")
		if strings.Count(key, "|") == 2 { // amounts: ...|denom
			i = strings.LastIndex(key, "|")
		}
		ks = append(ks, kk{key[:i], key[i+1:]})
	}
	for i := range ks {
		for j := range ks {
			if i != j && ks[i].head == ks[j].head && ks[i].last != ks[j].last && strings.HasPrefix(ks[j].last, ks[i].last) {
				return true
			}
		}
	}
	return false
}
