package simapp

// loop.go — E5: the REAL envelopes (DESIGN §2/E5). Everything the other engines emulate (§1.3) is executed here:
// signed transactions go through baseapp (ante handler, runTx, per-transaction rollback, block gas meter) in
// FinalizeBlock + Commit, and packets go through IBC core's own RecvPacket / Acknowledgement handlers. The proofs
// core demands are provided by ibc-go's 09-localhost client: two real transfer channels (channel-0 <-> channel-1)
// are opened over `connection-localhost` with the four handshake messages, a Noble-native coin is sent out over
// channel-0 (real escrow), arrives over channel-1 as a voucher, and the voucher is then returned over channel-1 with
// the orbiter account as receiver: core verifies the packet commitment against the chain's own store, runs the
// transfer stack on its cached context, writes the acknowledgement commitment, and the acknowledgement is relayed back
// so that an error acknowledgement really refunds the sender.
//
// Every step is ALSO run through the emulated envelope (ops.go: RecvOn / Msg) on a copy-on-write branch of the
// same pre-state, and the two must agree: acknowledgement bytes (and the commitment core stored), success, and the
// content of every store a block without transactions does not touch. That is the conformance check of the two
// emulations the explorers rely on. The block-level observations (app hash, tx codes, gas used, acknowledgement
// bytes) form a transcript that C19 compares between independent replays.

import (
	"bytes"
	"math/big"
	"encoding/json"
	"crypto/sha256"
	"encoding/hex"
	"fmt"
	"math/rand"
	"sort"
	"strings"
	"sync"
	"time"

	abci "github.com/cometbft/cometbft/abci/types"
	cmtproto "github.com/cometbft/cometbft/proto/tendermint/types"
	dbm "github.com/cosmos/cosmos-db"
	"github.com/circlefin/noble-fiattokenfactory/x/blockibc"
	"github.com/cosmos/cosmos-sdk/baseapp"
	"github.com/cosmos/ibc-go/v8/modules/apps/transfer"
	porttypes "github.com/cosmos/ibc-go/v8/modules/core/05-port/types"

	"cosmossdk.io/math"
	"github.com/cosmos/cosmos-sdk/crypto/hd"
	"github.com/cosmos/cosmos-sdk/crypto/keys/secp256k1"
	cryptotypes "github.com/cosmos/cosmos-sdk/crypto/types"
	sims "github.com/cosmos/cosmos-sdk/testutil/sims"
	sdk "github.com/cosmos/cosmos-sdk/types"
	banktypes "github.com/cosmos/cosmos-sdk/x/bank/types"
	transfertypes "github.com/cosmos/ibc-go/v8/modules/apps/transfer/types"
	clienttypes "github.com/cosmos/ibc-go/v8/modules/core/02-client/types"
	channeltypes "github.com/cosmos/ibc-go/v8/modules/core/04-channel/types"
	ibcexported "github.com/cosmos/ibc-go/v8/modules/core/exported"
	localhost "github.com/cosmos/ibc-go/v8/modules/light-clients/09-localhost"
)

// the dummy authority of simapp/app.yaml (the mnemonic is printed there, next to the address)
const simappAuthorityMnemonic = "occur subway woman achieve deputy rapid museum point usual appear oil blue rate title claw debate flag gallery level object baby winner erase carbon"

type LoopWorld struct {
	*World
	Height     int64
	privs      map[string]cryptotypes.PrivKey
	seqs       map[string]uint64
	Relayer    sdk.AccAddress
	AuthOK     bool              // the authority's key could be derived (admin transactions possible)
	Vouchers   map[string]string // base denom -> ibc/<hash> of transfer/channel-1/<base>
	noise      map[string]bool   // stores a block WITHOUT transactions changes, plus ibc and acc
	Transcript []string
}

func loopTime(h int64) time.Time { return time.Unix(1700000000+h, 0).UTC() }

func (lw *LoopWorld) refreshCtx() {
	lw.Ctx = lw.App.BaseApp.NewUncachedContext(false, cmtproto.Header{Height: lw.Height, ChainID: chainID, Time: loopTime(lw.Height)}).
		WithEventManager(sdk.NewEventManager())
}

// Block executes one real block (FinalizeBlock + Commit) with the given transactions.
func (lw *LoopWorld) Block(txs ...[]byte) ([]*abci.ExecTxResult, error) {
	res, err := lw.App.FinalizeBlock(&abci.RequestFinalizeBlock{Height: lw.Height, Time: loopTime(lw.Height), Txs: txs})
	if err != nil {
		return nil, fmt.Errorf("FinalizeBlock(%d): %w", lw.Height, err)
	}
	if _, err := lw.App.Commit(); err != nil {
		return nil, fmt.Errorf("Commit(%d): %w", lw.Height, err)
	}
	line := fmt.Sprintf("h=%d apphash=%x", lw.Height, res.AppHash)
	for i, r := range res.TxResults {
		line += fmt.Sprintf(" tx%d=%d/%s/gas%d", i, r.Code, r.Codespace, r.GasUsed)
	}
	lw.Transcript = append(lw.Transcript, line)
	lw.Height++
	lw.refreshCtx()
	return res.TxResults, nil
}

// Tx signs msgs with the key of `signer` (SIGN_MODE_DIRECT, zero fee) and encodes the transaction.
func (lw *LoopWorld) Tx(signer sdk.AccAddress, msgs ...sdk.Msg) ([]byte, error) {
	priv, ok := lw.privs[signer.String()]
	if !ok {
		return nil, fmt.Errorf("no key for %s", signer)
	}
	acc := lw.App.AccountKeeper.GetAccount(lw.Ctx, signer)
	if acc == nil {
		return nil, fmt.Errorf("no account for %s", signer)
	}
	seq := lw.seqs[signer.String()]
	tx, err := sims.GenSignedMockTx(rand.New(rand.NewSource(1)), lw.App.txConfig, msgs, sdk.NewCoins(), 50_000_000, chainID,
		[]uint64{acc.GetAccountNumber()}, []uint64{seq}, priv)
	if err != nil {
		return nil, err
	}
	lw.seqs[signer.String()] = seq + 1
	return lw.App.txConfig.TxEncoder()(tx)
}

// txFailed: the sequence number of a failed transaction's signer is still consumed only when the ante handler
// passed; re-read it from the account.
func (lw *LoopWorld) resyncSeq(signer sdk.AccAddress) {
	if acc := lw.App.AccountKeeper.GetAccount(lw.Ctx, signer); acc != nil {
		lw.seqs[signer.String()] = acc.GetSequence()
	}
}

var loopProofHeight = clienttypes.NewHeight(1, 2)
var loopTimeout = clienttypes.NewHeight(1, 1_000_000) // far above every height the history reaches

func NewLoopWorld() (*LoopWorld, error) {
	w, err := NewWorld()
	if err != nil {
		return nil, err
	}
	lw := &LoopWorld{World: w, Height: 2, privs: map[string]cryptotypes.PrivKey{}, seqs: map[string]uint64{}, Vouchers: map[string]string{}}
	for _, s := range []string{"alice", "bob", "mallory", "relayer"} {
		lw.privs[acctFromSecret(s).String()] = secp256k1.GenPrivKeyFromSecret([]byte(s))
	}
	lw.Relayer = acctFromSecret("relayer")
	if bz, err := hd.Secp256k1.Derive()(simappAuthorityMnemonic, "", sdk.FullFundraiserPath); err == nil {
		priv := hd.Secp256k1.Generate()(bz)
		if sdk.AccAddress(priv.PubKey().Address()).String() == w.Authority {
			lw.privs[w.Authority] = priv
			lw.AuthOK = true
		}
	}
	ctx := w.Ctx
	signer := w.Alice.String()
	// accounts for the other signers
	var others []string
	for a := range lw.privs {
		others = append(others, a)
	}
	sort.Strings(others) // account numbers are assigned in this order
	for _, a := range others {
		if a == signer {
			continue
		}
		to, _ := sdk.AccAddressFromBech32(a)
		if err := w.Deposit(ctx, to, sdk.DefaultBondDenom, 1_000_000); err != nil {
			return nil, err
		}
	}
	// the four handshake messages over the localhost connection
	lh := []string{ibcexported.LocalhostConnectionID}
	for _, m := range []sdk.Msg{
		channeltypes.NewMsgChannelOpenInit("transfer", "ics20-1", channeltypes.UNORDERED, lh, "transfer", signer),
		channeltypes.NewMsgChannelOpenTry("transfer", "ics20-1", channeltypes.UNORDERED, lh, "transfer", "channel-0", "ics20-1", localhost.SentinelProof, loopProofHeight, signer),
		channeltypes.NewMsgChannelOpenAck("transfer", "channel-0", "channel-1", "ics20-1", localhost.SentinelProof, loopProofHeight, signer),
		channeltypes.NewMsgChannelOpenConfirm("transfer", "channel-1", localhost.SentinelProof, loopProofHeight, signer),
	} {
		if _, err := w.call(ctx, m); err != nil {
			return nil, fmt.Errorf("localhost handshake: %w", err)
		}
	}
	// Noble-native coins leave over channel-0 (real escrow) and arrive over channel-1 as vouchers held by alice
	for _, base := range []string{denomUSDC, denomOTH} {
		amt := math.NewInt(100_000_000_000)
		seq, _ := w.App.IBCKeeper.ChannelKeeper.GetNextSequenceSend(ctx, "transfer", "channel-0")
		if _, err := w.call(ctx, transfertypes.NewMsgTransfer("transfer", "channel-0", sdk.NewCoin(base, amt), signer, signer, loopTimeout, 0, "")); err != nil {
			return nil, err
		}
		d := transfertypes.FungibleTokenPacketData{Denom: base, Amount: amt.String(), Sender: signer, Receiver: signer}
		p := channeltypes.NewPacket(d.GetBytes(), seq, "transfer", "channel-0", "transfer", "channel-1", loopTimeout, 0)
		if _, err := w.call(ctx, channeltypes.NewMsgRecvPacket(p, localhost.SentinelProof, loopProofHeight, signer)); err != nil {
			return nil, err
		}
		v := transfertypes.ParseDenomTrace("transfer/channel-1/" + base).IBCDenom()
		if !w.App.BankKeeper.GetBalance(ctx, w.Alice, v).Amount.Equal(amt) {
			return nil, fmt.Errorf("loop fixture: alice holds no %s voucher", base)
		}
		lw.Vouchers[base] = v
	}
	if _, err := lw.Block(); err != nil {
		return nil, err
	}
	// calibrate block noise: stores that a block without transactions changes
	pre := lw.storeHashes(lw.Ctx)
	if _, err := lw.Block(); err != nil {
		return nil, err
	}
	post := lw.storeHashes(lw.Ctx)
	lw.noise = map[string]bool{"ibc": true, "acc": true}
	for n := range pre {
		if pre[n] != post[n] {
			lw.noise[n] = true
		}
	}
	return lw, nil
}

func (lw *LoopWorld) storeHashes(ctx sdk.Context) map[string]string {
	out := map[string]string{}
	for _, n := range lw.kvStoreNames() {
		if lw.noise != nil && lw.noise[n] {
			continue // never compared; the ibc store grows with every packet (hashing it at every step is quadratic)
		}
		out[n] = lw.StoreKeyOf(ctx, n)
	}
	return out
}

// quietDiff lists the stores outside the block noise whose content differs between a and b.
func (lw *LoopWorld) quietDiff(a, b map[string]string) []string {
	var out []string
	for n := range a {
		if !lw.noise[n] && a[n] != b[n] {
			out = append(out, n)
		}
	}
	sort.Strings(out)
	return out
}

// LoopStep is one packet through the real lifecycle.
type LoopStep struct {
	Label    string
	Base     string // denomUSDC / denomOTH: sent with MsgTransfer from alice's vouchers
	Amount   string
	Receiver string
	Memo     string
	Raw      []byte // non-nil: arbitrary packet data; the commitment is written directly (a counterparty that is not an honest ICS-20 module)
	Timeout  bool   // the packet is never received; MsgTimeout is relayed to the sending end instead (refund path through OnTimeoutPacket)
}

type LoopObs struct {
	Sendable   bool
	SendLog    string
	RecvCode   uint32
	RecvLog    string
	Ack        []byte
	AckSuccess bool
	EmuAck     []byte
	EmuSuccess bool
	EmuPanic   string
	Mismatch   []string // conformance failures (emulated vs real)
	Refund     string   // "", "refunded", or a description of what was not restored
	Delta      Delta    // ledger delta of the RecvPacket block
}

func ackOf(r *abci.ExecTxResult) []byte {
	for _, e := range r.Events {
		if e.Type == "write_acknowledgement" {
			for _, a := range e.Attributes {
				if a.Key == "packet_ack_hex" {
					bz, _ := hex.DecodeString(a.Value)
					return bz
				}
			}
		}
	}
	return nil
}

// RunStep drives one packet: [MsgTransfer] ; RecvPacket ; [Acknowledgement], each in its own block, and compares
// the RecvPacket block with the emulated envelope on a branch of the same state.
func (lw *LoopWorld) RunStep(s LoopStep) (LoopObs, error) {
	var o LoopObs
	app := lw.App
	ledger0 := lw.Snapshot(lw.Ctx)
	stores0 := lw.storeHashes(lw.Ctx)
	seq, _ := app.IBCKeeper.ChannelKeeper.GetNextSequenceSend(lw.Ctx, "transfer", "channel-1")
	var data []byte
	if s.Raw == nil {
		amt, ok := math.NewIntFromString(s.Amount)
		if !ok {
			return o, fmt.Errorf("bad amount %q", s.Amount)
		}
		tx, err := lw.Tx(lw.Alice, transfertypes.NewMsgTransfer("transfer", "channel-1", sdk.NewCoin(lw.Vouchers[s.Base], amt), lw.Alice.String(), s.Receiver, loopTimeout, 0, s.Memo))
		if err != nil {
			return o, err
		}
		rs, err := lw.Block(tx)
		if err != nil {
			return o, err
		}
		if rs[0].Code != 0 {
			o.SendLog = rs[0].Log
			lw.resyncSeq(lw.Alice)
			return o, nil // the sending chain's own ICS-20 module refuses to send this
		}
		o.Sendable = true
		d := transfertypes.FungibleTokenPacketData{Denom: "transfer/channel-1/" + s.Base, Amount: amt.String(), Sender: lw.Alice.String(), Receiver: s.Receiver, Memo: s.Memo}
		data = d.GetBytes()
	} else {
		o.Sendable = true
		data = s.Raw
	}
	pkt := channeltypes.NewPacket(data, seq, "transfer", "channel-1", "transfer", "channel-0", loopTimeout, 0)
	if s.Timeout {
		// the sending end's refund path: core.TimeoutPacket -> stack.OnTimeoutPacket (blockibc -> orbiter middleware -> transfer)
		tx, err := lw.Tx(lw.Relayer, channeltypes.NewMsgTimeout(pkt, 1, localhost.SentinelProof, clienttypes.NewHeight(1, 2_000_000), lw.Relayer.String()))
		if err != nil {
			return o, err
		}
		rs, err := lw.Block(tx)
		if err != nil {
			return o, err
		}
		o.RecvCode, o.RecvLog = rs[0].Code, rs[0].Log
		if rs[0].Code != 0 {
			lw.resyncSeq(lw.Relayer)
			o.Refund = fmt.Sprintf("timeout transaction failed: code %d %s", rs[0].Code, rs[0].Log)
			return o, nil
		}
		b, sp := LedgerDelta(ledger0, lw.Snapshot(lw.Ctx))
		if d := lw.quietDiff(stores0, lw.storeHashes(lw.Ctx)); len(b) > 0 || len(sp) > 0 || len(d) > 0 {
			o.Refund = fmt.Sprintf("after the timeout was relayed the ledger/stores are not those before the transfer: bal=%s supply=%s stores=%v", b, sp, d)
		} else {
			o.Refund = "refunded"
		}
		return o, nil
	}
	if s.Raw != nil {
		app.IBCKeeper.ChannelKeeper.SetPacketCommitment(lw.Ctx, "transfer", "channel-1", seq, channeltypes.CommitPacket(app.appCodec, pkt))
		app.IBCKeeper.ChannelKeeper.SetNextSequenceSend(lw.Ctx, "transfer", "channel-1", seq+1)
	} else if c := app.IBCKeeper.ChannelKeeper.GetPacketCommitment(lw.Ctx, "transfer", "channel-1", seq); !bytes.Equal(c, channeltypes.CommitPacket(app.appCodec, pkt)) {
		return o, fmt.Errorf("loop harness: reconstructed packet does not match the commitment the transfer module stored")
	}

	// emulated envelope on a branch of exactly this state
	ledger1 := lw.Snapshot(lw.Ctx)
	ectx := Branch(lw.Ctx)
	er := func() (res RecvResult) {
		cctx, write := ectx.CacheContext()
		defer func() {
			if r := recover(); r != nil {
				res.Panic = fmt.Sprint(r)
			}
		}()
		ack := lw.Stack.OnRecvPacket(cctx, pkt, lw.Relayer)
		if ack == nil {
			res.NilAck, res.Success = true, true
		} else {
			res.Ack, res.Success = ack.Acknowledgement(), ack.Success()
		}
		if res.Success {
			write()
			res.Written = true
		}
		return res
	}()
	o.EmuAck, o.EmuSuccess, o.EmuPanic = er.Ack, er.Success, er.Panic
	emuStores := lw.storeHashes(ectx)
	emuLedger := lw.Snapshot(ectx)

	// the real thing
	tx, err := lw.Tx(lw.Relayer, channeltypes.NewMsgRecvPacket(pkt, localhost.SentinelProof, loopProofHeight, lw.Relayer.String()))
	if err != nil {
		return o, err
	}
	rs, err := lw.Block(tx)
	if err != nil {
		return o, err
	}
	o.RecvCode, o.RecvLog = rs[0].Code, rs[0].Log
	realStores := lw.storeHashes(lw.Ctx)
	realLedger := lw.Snapshot(lw.Ctx)
	o.Delta, _ = LedgerDelta(ledger1, realLedger)
	if rs[0].Code != 0 {
		lw.resyncSeq(lw.Relayer)
		if er.Panic == "" {
			o.Mismatch = append(o.Mismatch, fmt.Sprintf("real RecvPacket transaction failed (code %d: %s) but the emulated callback returned an acknowledgement", rs[0].Code, rs[0].Log))
		}
		if d := lw.quietDiff(stores0, realStores); len(d) > 0 && s.Raw != nil {
			o.Mismatch = append(o.Mismatch, fmt.Sprintf("failed transaction changed stores %v", d))
		}
		return o, nil
	}
	o.Ack = ackOf(rs[0])
	var ackJSON struct {
		Result []byte `json:"result"`
		Error  string `json:"error"`
	}
	_ = jsonUnmarshal(o.Ack, &ackJSON)
	o.AckSuccess = len(ackJSON.Result) > 0 && ackJSON.Error == ""
	stored, _ := app.IBCKeeper.ChannelKeeper.GetPacketAcknowledgement(lw.Ctx, "transfer", "channel-0", seq)
	if !bytes.Equal(stored, channeltypes.CommitAcknowledgement(o.Ack)) {
		o.Mismatch = append(o.Mismatch, "acknowledgement commitment stored by core is not the hash of the acknowledgement in the event")
	}
	if er.Panic != "" {
		o.Mismatch = append(o.Mismatch, "emulated callback panicked ("+er.Panic+") but the real transaction succeeded")
	}
	if !bytes.Equal(o.Ack, er.Ack) {
		o.Mismatch = append(o.Mismatch, fmt.Sprintf("acknowledgement differs: real %q vs emulated %q", o.Ack, er.Ack))
	}
	if o.AckSuccess != er.Success {
		o.Mismatch = append(o.Mismatch, fmt.Sprintf("success differs: real %v vs emulated %v", o.AckSuccess, er.Success))
	}
	if d := lw.quietDiff(emuStores, realStores); len(d) > 0 {
		o.Mismatch = append(o.Mismatch, fmt.Sprintf("stores differ between the emulated envelope and the real block: %v", d))
	}
	if b, sp := LedgerDelta(emuLedger, realLedger); len(b) > 0 || len(sp) > 0 {
		o.Mismatch = append(o.Mismatch, fmt.Sprintf("ledger differs between the emulated envelope and the real block: %s %s", b, sp))
	}
	if s.Raw != nil {
		return o, nil
	}
	// relay the acknowledgement back to the sending end: an error acknowledgement must refund the sender
	tx, err = lw.Tx(lw.Relayer, channeltypes.NewMsgAcknowledgement(pkt, o.Ack, localhost.SentinelProof, loopProofHeight, lw.Relayer.String()))
	if err != nil {
		return o, err
	}
	rs, err = lw.Block(tx)
	if err != nil {
		return o, err
	}
	if rs[0].Code != 0 {
		lw.resyncSeq(lw.Relayer)
		o.Refund = fmt.Sprintf("acknowledgement transaction failed: code %d %s", rs[0].Code, rs[0].Log)
		return o, nil
	}
	if !o.AckSuccess {
		endLedger := lw.Snapshot(lw.Ctx)
		b, sp := LedgerDelta(ledger0, endLedger)
		d := lw.quietDiff(stores0, lw.storeHashes(lw.Ctx))
		if len(b) > 0 || len(sp) > 0 || len(d) > 0 {
			o.Refund = fmt.Sprintf("after the error acknowledgement was relayed the ledger/stores are not those before the transfer: bal=%s supply=%s stores=%v", b, sp, d)
		} else {
			o.Refund = "refunded"
		}
	}
	return o, nil
}

// AdminStep: one orbiter message in a real signed transaction vs the emulated per-message envelope.
type AdminObs struct {
	Code     uint32
	Log      string
	EmuOK    bool
	Mismatch []string
}

// emulate=false: the case has no emulated counterpart (the emulated envelope starts below signature verification);
// the transaction must then fail and change nothing.
func (lw *LoopWorld) RunAdmin(signer sdk.AccAddress, emulate bool, msgs ...sdk.Msg) (AdminObs, error) {
	var o AdminObs
	stores0 := lw.storeHashes(lw.Ctx)
	// emulated: every message in turn on one branch, all-or-nothing
	ectx := Branch(lw.Ctx)
	o.EmuOK = emulate
	for _, m := range msgs {
		if !emulate {
			break
		}
		if r := lw.Msg(ectx, m); !r.OK || r.Panic != "" {
			o.EmuOK = false
			break
		}
	}
	emuStores := stores0
	if o.EmuOK {
		emuStores = lw.storeHashes(ectx)
	}
	tx, err := lw.Tx(signer, msgs...)
	if err != nil {
		return o, err
	}
	rs, err := lw.Block(tx)
	if err != nil {
		return o, err
	}
	o.Code, o.Log = rs[0].Code, rs[0].Log
	if o.Code != 0 {
		lw.resyncSeq(signer)
	}
	if (o.Code == 0) != o.EmuOK {
		o.Mismatch = append(o.Mismatch, fmt.Sprintf("real transaction code %d (%s) but emulated ok=%v", o.Code, o.Log, o.EmuOK))
	}
	if d := lw.quietDiff(emuStores, lw.storeHashes(lw.Ctx)); len(d) > 0 {
		o.Mismatch = append(o.Mismatch, fmt.Sprintf("stores differ between the emulated envelope and the real transaction: %v", d))
	}
	return o, nil
}

// RunSameBlock: an authority transaction and the relayer's RecvPacket for an already committed packet in ONE block, in this
// order. Transactions of a block execute one after the other on the same state, so the packet must see the effect of the
// admin message exactly as if it had been committed a block earlier (anything remembered per block or per height inside
// the keepers would show here). Returns the acknowledgement core stored and the emulated one (message, then packet, on
// a branch of the pre-state).
func (lw *LoopWorld) RunSameBlock(admin sdk.Msg, s LoopStep) (realAck, emuAck []byte, codes [2]uint32, err error) {
	auth, _ := sdk.AccAddressFromBech32(lw.Authority)
	amt, _ := math.NewIntFromString(s.Amount)
	seq, _ := lw.App.IBCKeeper.ChannelKeeper.GetNextSequenceSend(lw.Ctx, "transfer", "channel-1")
	tx, err := lw.Tx(lw.Alice, transfertypes.NewMsgTransfer("transfer", "channel-1", sdk.NewCoin(lw.Vouchers[s.Base], amt), lw.Alice.String(), s.Receiver, loopTimeout, 0, s.Memo))
	if err != nil {
		return nil, nil, codes, err
	}
	rs, err := lw.Block(tx)
	if err != nil || rs[0].Code != 0 {
		return nil, nil, codes, fmt.Errorf("same-block step: cannot send: %v %v", err, rs)
	}
	d := transfertypes.FungibleTokenPacketData{Denom: "transfer/channel-1/" + s.Base, Amount: amt.String(), Sender: lw.Alice.String(), Receiver: s.Receiver, Memo: s.Memo}
	pkt := channeltypes.NewPacket(d.GetBytes(), seq, "transfer", "channel-1", "transfer", "channel-0", loopTimeout, 0)
	// emulation: message, then packet, on one branch
	ectx := Branch(lw.Ctx)
	lw.Msg(ectx, admin)
	cctx, write := ectx.CacheContext()
	if ack := lw.Stack.OnRecvPacket(cctx, pkt, lw.Relayer); ack != nil {
		emuAck = ack.Acknowledgement()
		if ack.Success() {
			write()
		}
	}
	t1, err := lw.Tx(auth, admin)
	if err != nil {
		return nil, nil, codes, err
	}
	t2, err := lw.Tx(lw.Relayer, channeltypes.NewMsgRecvPacket(pkt, localhost.SentinelProof, loopProofHeight, lw.Relayer.String()))
	if err != nil {
		return nil, nil, codes, err
	}
	rs, err = lw.Block(t1, t2)
	if err != nil {
		return nil, nil, codes, err
	}
	codes = [2]uint32{rs[0].Code, rs[1].Code}
	if rs[0].Code != 0 {
		lw.resyncSeq(auth)
	}
	if rs[1].Code != 0 {
		lw.resyncSeq(lw.Relayer)
		return nil, emuAck, codes, nil
	}
	realAck = ackOf(rs[1])
	// relay the acknowledgement so that the sending end is settled
	if tx, err = lw.Tx(lw.Relayer, channeltypes.NewMsgAcknowledgement(pkt, realAck, localhost.SentinelProof, loopProofHeight, lw.Relayer.String())); err == nil {
		if rs, err = lw.Block(tx); err == nil && rs[0].Code != 0 {
			lw.resyncSeq(lw.Relayer)
		}
	}
	return realAck, emuAck, codes, err
}

// ---------------------------------------------------------------------------------------------
// The conformance run: one linear block history; every step is compared with its emulation on the same state.

func (lw *LoopWorld) loopMenu(full bool) []LoopStep {
	orb := lw.Orb.String()
	var out []LoopStep
	add := func(label, base, amt, rcv, memo string) {
		out = append(out, LoopStep{Label: label, Base: base, Amount: amt, Receiver: rcv, Memo: memo})
	}
	fwds := []Fwd{lw.FwdCCTP(0), lw.FwdCCTPCaller(1), lw.FwdCCTP(2), lw.FwdHyp(1), lw.FwdHyp(3), lw.FwdInternal(lw.Bob), lw.FwdInternal(lw.Dust),
		{Kind: "internal", To: orb, Tag: "internal(orb)"}}
	fees := lw.feeMenu()
	amts := []string{"10000", fmt.Sprint(burnLimit + 1)}
	if full {
		amts = append(amts, "1", "9999")
	}
	for _, f := range fwds {
		for fi, fe := range fees {
			for _, a := range amts {
				add(fmt.Sprintf("%s/fee%d/%s", f, fi, a), denomUSDC, a, orb, Memo(f, fe))
			}
		}
	}
	// other denomination (internal only can carry it), upper-case receiver, plain traffic, malformed memos
	add("uother internal", denomOTH, "5000", orb, Memo(lw.FwdInternal(lw.Bob), fees[1]))
	add("uother cctp (not the burn token)", denomOTH, "5000", orb, Memo(lw.FwdCCTP(0), nil))
	add("ORB receiver", denomUSDC, "700", strings.ToUpper(orb), Memo(lw.FwdInternal(lw.Bob), nil))
	add("plain to bob", denomUSDC, "300", lw.Bob.String(), "")
	add("plain to bob with an orbiter memo", denomUSDC, "300", lw.Bob.String(), Memo(lw.FwdCCTP(0), nil))
	add("plain to dust (blocked)", denomUSDC, "300", lw.Dust.String(), "")
	add("orb without memo", denomUSDC, "300", orb, "")
	add("orb malformed memo", denomUSDC, "300", orb, "{")
	add("orb empty orbiter object", denomUSDC, "300", orb, `{"orbiter":{}}`)
	add("orb unknown field", denomUSDC, "300", orb, `{"orbiter":{"forwarding":{"protocol_id":"PROTOCOL_CCTP","bogus":1}}}`)
	add("orb null pre_action", denomUSDC, "300", orb, MemoJSON(lw.FwdInternal(lw.Bob), "null"))
	add("orb passthrough 3 bytes", denomUSDC, "300", orb, Memo(Fwd{Kind: "cctp", Domain: 0, MintRecipient: b32(9), Passthrough: []byte{1, 2, 3}}, nil))
	add("hyp igp maxfee uigp", denomUSDC, "4000", orb, Memo(lw.FwdHypIGP("500uigp"), nil))
	// never received: the timeout is relayed back instead (OnTimeoutPacket through the whole stack)
	out = append(out, LoopStep{Label: "timeout: orbiter transfer never received", Base: denomUSDC, Amount: "1234", Receiver: orb, Memo: Memo(lw.FwdCCTP(0), fees[1]), Timeout: true},
		LoopStep{Label: "timeout: plain transfer never received", Base: denomOTH, Amount: "55", Receiver: lw.Bob.String(), Timeout: true})
	// packet data no honest ICS-20 module would send: commitment written directly
	raw := func(label string, d transfertypes.FungibleTokenPacketData) {
		out = append(out, LoopStep{Label: "raw:" + label, Raw: d.GetBytes()})
	}
	vd := "transfer/channel-1/uusdc"
	al := lw.Alice.String()
	raw("negative amount", transfertypes.FungibleTokenPacketData{Denom: vd, Amount: "-5", Sender: al, Receiver: orb, Memo: Memo(lw.FwdInternal(lw.Bob), nil)})
	raw("hex amount", transfertypes.FungibleTokenPacketData{Denom: vd, Amount: "0x10", Sender: al, Receiver: orb, Memo: Memo(lw.FwdInternal(lw.Bob), nil)})
	raw("zero amount", transfertypes.FungibleTokenPacketData{Denom: vd, Amount: "0", Sender: al, Receiver: orb, Memo: Memo(lw.FwdInternal(lw.Bob), nil)})
	raw("sender-native denom", transfertypes.FungibleTokenPacketData{Denom: "uatom", Amount: "5", Sender: al, Receiver: orb, Memo: Memo(lw.FwdInternal(lw.Bob), nil)})
	raw("two-hop denom", transfertypes.FungibleTokenPacketData{Denom: "transfer/channel-1/transfer/channel-5/uusdc", Amount: "5", Sender: al, Receiver: orb, Memo: Memo(lw.FwdInternal(lw.Bob), nil)})
	raw("empty receiver", transfertypes.FungibleTokenPacketData{Denom: vd, Amount: "5", Sender: al, Receiver: "", Memo: ""})
	raw("invalid base denom", transfertypes.FungibleTokenPacketData{Denom: "transfer/channel-1/1x", Amount: "5", Sender: al, Receiver: orb, Memo: Memo(lw.FwdInternal(lw.Bob), nil)})
	out = append(out, LoopStep{Label: "raw:not json", Raw: []byte("not json")}, LoopStep{Label: "raw:empty object", Raw: []byte("{}")})
	// (empty packet data cannot reach any application callback: MsgRecvPacket.ValidateBasic refuses it)
	return out
}

// loopRun executes the whole conformance history on a fresh LoopWorld; reports into rep when rep != nil.
func loopRun(rep *Report, full bool) (transcript []string, err error) {
	lw, err := NewLoopWorld()
	if err != nil {
		return nil, err
	}
	const foldKind = "real-history-statistics-are-not-the-fold"
	violate := func(kind, label, what string) {
		if rep == nil {
			return
		}
		// one history, two properties: C12 judges the statistics fold, C03 everything else
		if (rep.Prop == "C12") != (kind == foldKind) {
			return
		}
		rep.Violate(Violation{Kind: kind, Group: "real-envelope", Sig: "loop: " + label,
			Replay: mustJSON(map[string]any{"loop": label, "full": full}), What: what + " [real block history, step " + label + "]"})
	}
	count := func(k string) {
		if rep != nil {
			rep.Count(k, 1)
		}
	}
	foldIn := map[string]*big.Int{}
	var foldN uint64
	// phases: the same menu in several environments reached by real transactions / environment toggles
	type phase struct {
		name string
		prep func() error
	}
	auth, _ := sdk.AccAddressFromBech32(lw.Authority)
	admin := func(label string, signer sdk.AccAddress, wantOK *bool, msgs ...sdk.Msg) error {
		o, err := lw.RunAdmin(signer, !strings.HasPrefix(label, "unsigned-by-signer:"), msgs...)
		if err != nil {
			return err
		}
		count("loop_admin_txs")
		lw.Transcript = append(lw.Transcript, fmt.Sprintf("  admin %s code=%d", label, o.Code))
		for _, m := range o.Mismatch {
			violate("emulated-envelope-disagrees-with-real", "admin "+label, m)
		}
		if wantOK != nil && (o.Code == 0) != *wantOK {
			violate("real-transaction-outcome", "admin "+label, fmt.Sprintf("expected ok=%v, got code %d (%s)", *wantOK, o.Code, o.Log))
		}
		return nil
	}
	yes, no := true, false
	mk := func(o Op) sdk.Msg { m, _ := o.Msg.Build(); return m }
	phases := []phase{
		{"initial", func() error { return nil }},
		{"stray balances on the orbiter account", func() error {
			tx, err := lw.Tx(lw.Alice, &banktypes.MsgSend{FromAddress: lw.Alice.String(), ToAddress: lw.Orb.String(),
				Amount: sdk.NewCoins(sdk.NewCoin(denomUSDC, math.NewInt(5)), sdk.NewCoin(denomIGP, math.NewInt(5000)))})
			if err != nil {
				return err
			}
			_, err = lw.Block(tx)
			return err
		}},
	}
	if lw.AuthOK {
		phases = append(phases,
			phase{"CCTP paused, HYP:1 paused, fee action paused, params 8 (real authority transactions)", func() error {
				for _, st := range []struct {
					l  string
					op Op
				}{{"PauseProtocol(CCTP)", lw.OpPauseProtocol("PROTOCOL_CCTP")}, {"PauseCC(HYP,1)", lw.OpPauseCC("PROTOCOL_HYPERLANE", "1")},
					{"PauseAction(FEE)", lw.OpPauseAction("ACTION_FEE")}, {"UpdateParams(8)", lw.OpUpdateParams(8)}} {
					if err := admin(st.l, auth, &yes, mk(st.op)); err != nil {
						return err
					}
					// the same message signed (and named as signer) by somebody else
					if err := admin(st.l+" by mallory", lw.Mallory, &no, mk(withSigner(st.op, lw.Mallory.String(), "mallory"))); err != nil {
						return err
					}
				}
				// mallory signs a transaction whose message names the authority as signer: the ante handler must refuse
				if err := admin("unsigned-by-signer: authority-named message signed by mallory", lw.Mallory, &no, mk(lw.OpUnpauseProtocol("PROTOCOL_CCTP"))); err != nil {
					return err
				}
				// a transaction is atomic: [valid unpause ; redundant unpause] must leave CCTP paused
				return admin("tx[unpause CCTP ; unpause CCTP again]", auth, nil, mk(lw.OpUnpauseProtocol("PROTOCOL_CCTP")), mk(lw.OpUnpauseProtocol("PROTOCOL_CCTP")))
			}},
			phase{"everything unpaused again", func() error {
				for _, st := range []struct {
					l  string
					op Op
				}{{"UnpauseProtocol(CCTP)", lw.OpUnpauseProtocol("PROTOCOL_CCTP")}, {"UnpauseCC(HYP,1)", lw.OpUnpauseCC("PROTOCOL_HYPERLANE", "1")},
					{"UnpauseAction(FEE)", lw.OpUnpauseAction("ACTION_FEE")}} {
					if err := admin(st.l, auth, &yes, mk(st.op)); err != nil {
						return err
					}
				}
				return nil
			}})
	} else {
		count("loop_authority_key_unavailable")
	}
	if lw.AuthOK {
		phases = append(phases, phase{"authority message and packet in the SAME block", func() error {
			orb := lw.Orb.String()
			fee := lw.feeMenu()[1]
			pt := func(n int) string {
				return Memo(Fwd{Kind: "cctp", Domain: 0, MintRecipient: b32(9), Passthrough: bytes.Repeat([]byte{7}, n)}, nil)
			}
			for _, st := range []struct {
				label string
				op    Op
				step  LoopStep
				ok    bool
			}{
				{"UpdateParams(6) ; passthrough 5B", lw.OpUpdateParams(6), LoopStep{Base: denomUSDC, Amount: "100", Receiver: orb, Memo: pt(5)}, true},
				{"UpdateParams(4) ; passthrough 5B", lw.OpUpdateParams(4), LoopStep{Base: denomUSDC, Amount: "100", Receiver: orb, Memo: pt(5)}, false},
				{"UpdateParams(0) ; passthrough 1B", lw.OpUpdateParams(0), LoopStep{Base: denomUSDC, Amount: "100", Receiver: orb, Memo: pt(1)}, false},
				{"PauseAction(FEE) ; transfer with fee", lw.OpPauseAction("ACTION_FEE"), LoopStep{Base: denomUSDC, Amount: "5000", Receiver: orb, Memo: Memo(lw.FwdInternal(lw.Bob), fee)}, false},
				{"UnpauseAction(FEE) ; transfer with fee", lw.OpUnpauseAction("ACTION_FEE"), LoopStep{Base: denomUSDC, Amount: "5000", Receiver: orb, Memo: Memo(lw.FwdInternal(lw.Bob), fee)}, true},
				{"PauseCC(HYP,2) ; hyp(2)", lw.OpPauseCC("PROTOCOL_HYPERLANE", "2"), LoopStep{Base: denomUSDC, Amount: "700", Receiver: orb, Memo: Memo(lw.FwdHyp(2), nil)}, false},
				{"UnpauseCC(HYP,2) ; hyp(2)", lw.OpUnpauseCC("PROTOCOL_HYPERLANE", "2"), LoopStep{Base: denomUSDC, Amount: "700", Receiver: orb, Memo: Memo(lw.FwdHyp(2), nil)}, true},
				{"PauseProtocol(INTERNAL) ; internal", lw.OpPauseProtocol("PROTOCOL_INTERNAL"), LoopStep{Base: denomUSDC, Amount: "700", Receiver: orb, Memo: Memo(lw.FwdInternal(lw.Bob), nil)}, false},
				{"UnpauseProtocol(INTERNAL) ; internal", lw.OpUnpauseProtocol("PROTOCOL_INTERNAL"), LoopStep{Base: denomUSDC, Amount: "700", Receiver: orb, Memo: Memo(lw.FwdInternal(lw.Bob), nil)}, true},
			} {
				realAck, emuAck, codes, err := lw.RunSameBlock(mk(st.op), st.step)
				if err != nil {
					return err
				}
				count("loop_same_block_steps")
				count("evaluations")
				lw.Transcript = append(lw.Transcript, fmt.Sprintf("  same block: %s codes=%v ack=%s", st.label, codes, trunc(string(realAck), 60)))
				var a struct {
					Result []byte `json:"result"`
				}
				_ = jsonUnmarshal(realAck, &a)
				gotOK := len(a.Result) > 0
				switch {
				case codes[0] != 0 || codes[1] != 0:
					violate("real-transaction-outcome", "same block: "+st.label, fmt.Sprintf("transaction codes %v (both transactions of the block must succeed)", codes))
				case !bytes.Equal(realAck, emuAck):
					violate("emulated-envelope-disagrees-with-real", "same block: "+st.label, fmt.Sprintf("acknowledgement of a packet executed in the same block as the authority message: real %q, emulated (message then packet) %q", realAck, emuAck))
				case gotOK != st.ok:
					violate("same-block-admin-message-not-in-force", "same block: "+st.label, fmt.Sprintf("the packet executed right after the authority message in the same block was %s; with the message in force it must be %s (ack %s)", map[bool]string{true: "executed", false: "refused"}[gotOK], map[bool]string{true: "executed", false: "refused"}[st.ok], realAck))
				default:
					if rep != nil {
						rep.Outcome("same-block-message-in-force")
					}
				}
				if gotOK && codes[1] == 0 {
					// a transfer core acknowledged with success: part of the statistics fold
					if v, ok := parseIntLikeSDK(st.step.Amount); ok {
						if foldIn[st.step.Base] == nil {
							foldIn[st.step.Base] = new(big.Int)
						}
						foldIn[st.step.Base].Add(foldIn[st.step.Base], v)
						foldN++
					}
				}
			}
			return nil
		}})
	}
	if lw.AuthOK {
		// A transaction is atomic: an authority message that SUCCEEDED inside a transaction whose later message fails never
		// happened. Whatever a keeper remembers outside the stores (a cached limit, a "paused" flag, a counter) survives the
		// rollback — on this instance only (seeds C09g/h, C08h, C18h, C19h, C12h, C13h). Committed state at this point:
		// limit 0, nothing paused. Each rolled-back message is followed by a packet whose verdict that message would change.
		phases = append(phases, phase{"authority messages inside transactions that are rolled back", func() error {
			orb := lw.Orb.String()
			fee := lw.feeMenu()[1]
			pt := func(n int) string {
				return Memo(Fwd{Kind: "cctp", Domain: 0, MintRecipient: b32(9), Passthrough: bytes.Repeat([]byte{7}, n)}, nil)
			}
			failing := mk(lw.OpUnpauseAction("ACTION_FEE")) // redundant: the fee action is not paused -> this message fails
			for _, st := range []struct {
				label string
				op    Op
				step  LoopStep
				ok    bool
			}{
				{"tx[UpdateParams(64) ; failing] then passthrough 5B", lw.OpUpdateParams(64), LoopStep{Base: denomUSDC, Amount: "100", Receiver: orb, Memo: pt(5)}, false},
				{"tx[PauseProtocol(INTERNAL) ; failing] then internal", lw.OpPauseProtocol("PROTOCOL_INTERNAL"), LoopStep{Base: denomUSDC, Amount: "700", Receiver: orb, Memo: Memo(lw.FwdInternal(lw.Bob), nil)}, true},
				{"tx[PauseCC(HYP,2) ; failing] then hyp(2)", lw.OpPauseCC("PROTOCOL_HYPERLANE", "2"), LoopStep{Base: denomUSDC, Amount: "700", Receiver: orb, Memo: Memo(lw.FwdHyp(2), nil)}, true},
				{"tx[PauseCC(CCTP,0) ; failing] then cctp(0)", lw.OpPauseCC("PROTOCOL_CCTP", "0"), LoopStep{Base: denomUSDC, Amount: "700", Receiver: orb, Memo: Memo(lw.FwdCCTP(0), nil)}, true},
				{"tx[PauseAction(FEE) ; failing] then transfer with fee", lw.OpPauseAction("ACTION_FEE"), LoopStep{Base: denomUSDC, Amount: "5000", Receiver: orb, Memo: Memo(lw.FwdInternal(lw.Bob), fee)}, true},
			} {
				fm := failing
				if st.op.Msg != nil && st.op.Msg.RPC == "PauseAction" {
					fm = mk(lw.OpUnpauseProtocol("PROTOCOL_CCTP")) // after a (rolled-back) PauseAction(FEE) the unpause of FEE would succeed: fail on something else
				}
				if err := admin(st.label, auth, &no, mk(st.op), fm); err != nil {
					return err
				}
				o, err := lw.RunStep(st.step)
				if err != nil {
					return err
				}
				count("loop_rolled_back_steps")
				count("evaluations")
				lw.Transcript = append(lw.Transcript, fmt.Sprintf("  rolled back: %s ack=%s", st.label, trunc(string(o.Ack), 60)))
				switch {
				case !o.Sendable || o.RecvCode != 0:
					violate("real-transaction-outcome", "rolled back: "+st.label, fmt.Sprintf("probe packet could not be delivered: sendable=%v code %d %s", o.Sendable, o.RecvCode, o.RecvLog))
				case o.AckSuccess != st.ok:
					violate("rolled-back-message-in-force", "rolled back: "+st.label, fmt.Sprintf("an authority message that succeeded inside a transaction whose next message failed is in force afterwards: the packet was %s, on the committed state it must be %s (ack %s)",
						map[bool]string{true: "executed", false: "refused"}[o.AckSuccess], map[bool]string{true: "executed", false: "refused"}[st.ok], trunc(string(o.Ack), 200)))
				default:
					if rep != nil {
						rep.Outcome("rolled-back-message-not-in-force")
					}
				}
				for _, m := range o.Mismatch {
					violate("emulated-envelope-disagrees-with-real", "rolled back: "+st.label, m)
				}
				if o.AckSuccess && o.RecvCode == 0 {
					if v, ok := parseIntLikeSDK(st.step.Amount); ok {
						if foldIn[st.step.Base] == nil {
							foldIn[st.step.Base] = new(big.Int)
						}
						foldIn[st.step.Base].Add(foldIn[st.step.Base], v)
						foldN++
					}
				}
			}
			return nil
		}})
	}
	phases = append(phases, phase{"token factory paused", func() error { return lw.ApplyEnv(lw.Ctx, "ftf-pause") }})
	menu := lw.loopMenu(full)
	for pi, ph := range phases {
		if err := ph.prep(); err != nil {
			return lw.Transcript, fmt.Errorf("loop phase %q: %w", ph.name, err)
		}
		steps := menu
		if !full && pi >= 2 {
			// quick tier: later phases use every second step (the first two phases run the whole menu)
			steps = nil
			for i, s := range menu {
				if i%2 == pi%2 {
					steps = append(steps, s)
				}
			}
		}
		for _, s := range steps {
			label := ph.name + " / " + s.Label
			o, err := lw.RunStep(s)
			if err != nil {
				return lw.Transcript, fmt.Errorf("loop step %q: %w", label, err)
			}
			count("loop_steps")
			count("evaluations")
			if !o.Sendable {
				count("loop_unsendable")
				lw.Transcript = append(lw.Transcript, "  "+label+" unsendable")
				continue
			}
			h := sha256.Sum256(o.Ack)
			lw.Transcript = append(lw.Transcript, fmt.Sprintf("  %s code=%d ack=%x ok=%v refund=%s", label, o.RecvCode, h[:8], o.AckSuccess, o.Refund))
			if rep == nil {
				continue
			}
			if s.Timeout {
				if o.Refund != "refunded" {
					violate("real-timeout-not-refunded", label, "timeout relayed to the source end, but: "+o.Refund)
				} else {
					rep.Outcome("real-timeout-refunded")
				}
				continue
			}
			rep.Count("traces_validated_against_impl", 1)
			for _, m := range o.Mismatch {
				violate("emulated-envelope-disagrees-with-real", label, m)
			}
			if o.RecvCode != 0 {
				rep.Outcome("real-recv-tx-failed")
				violate("real-recv-transaction-aborted", label, fmt.Sprintf("the relayer's RecvPacket transaction failed (code %d: %s): the receive path aborted the enclosing transaction instead of returning an acknowledgement", o.RecvCode, o.RecvLog))
				continue
			}
			switch {
			case o.AckSuccess:
				rep.Outcome("real-success-ack")
				// fold for the statistics invariant at the end of the history
				rcv, den, amt := s.Receiver, "transfer/channel-1/"+s.Base, s.Amount
				if s.Raw != nil {
					var d transfertypes.FungibleTokenPacketData
					if transfertypes.ModuleCdc.UnmarshalJSON(s.Raw, &d) == nil {
						rcv, den, amt = d.Receiver, d.Denom, d.Amount
					}
				}
				if decodesTo(rcv, lw.Orb) {
					if v, ok := parseIntLikeSDK(amt); ok {
						base := strings.TrimPrefix(den, "transfer/channel-1/")
						if foldIn[base] == nil {
							foldIn[base] = new(big.Int)
						}
						foldIn[base].Add(foldIn[base], v)
						foldN++
					}
				}
				// all-or-nothing, success side: nothing may stay on the orbiter account
				for k, v := range o.Delta {
					if strings.HasPrefix(k, lw.Orb.String()+"|") && !strings.HasPrefix(v, "-") {
						violate("real-success-ack-orbiter-balance-grew", label, fmt.Sprintf("success acknowledgement committed by IBC core and the orbiter account gained %s (%s)", v, k))
					}
				}
			case s.Raw != nil:
				rep.Outcome("real-error-ack-raw")
			default:
				rep.Outcome("real-error-ack")
				if o.Refund != "refunded" {
					violate("real-error-ack-not-all-or-nothing", label, "error acknowledgement relayed back to the source end, but: "+o.Refund)
				} else {
					rep.Count("loop_refunds_verified", 1)
				}
			}
		}
	}
	if rep != nil {
		// the statistics after the whole block history are the fold of the transfers IBC core acknowledged with success:
		// number of transfers = sum of all counts, amount received per denomination = sum of the incoming totals
		checkFold := func(l *LoopWorld, label string) {
			g := l.App.OrbiterKeeper.ExportGenesis(l.Ctx).DispatcherGenesis
			var n uint64
			for i := range g.DispatchedCounts {
				n += g.DispatchedCounts[i].Count
			}
			gotIn := map[string]*big.Int{}
			for i := range g.DispatchedAmounts {
				e := &g.DispatchedAmounts[i]
				if e.SourceId.ProtocolId != 1 { // only IBC sources are produced by this history
					continue
				}
				if gotIn[e.Denom] == nil {
					gotIn[e.Denom] = new(big.Int)
				}
				gotIn[e.Denom].Add(gotIn[e.Denom], e.AmountDispatched.Incoming.BigInt())
			}
			okFold := n == foldN
			for d, v := range foldIn {
				if gotIn[d] == nil || gotIn[d].Cmp(v) != 0 {
					okFold = false
				}
			}
			if !okFold {
				violate(foldKind, label, fmt.Sprintf("the statistics count %d transfers with incoming totals %v; IBC core acknowledged %d orbiter transfers with success, totalling %v", n, gotIn, foldN, foldIn))
			} else {
				rep.Outcome("real-history-statistics-equal-the-fold")
			}
		}
		checkFold(lw, "end of history")
		if rep.Prop == "C12" {
			// ... and the accumulation continues across a restart of the chain from its exported state
			if l2, _, err := lw.Restart(); err != nil {
				violate(foldKind, "restart", "the chain cannot be restarted from its exported state, so the statistics do not continue: "+err.Error())
			} else {
				for _, st := range []LoopStep{
					{Label: "after restart: internal", Base: denomUSDC, Amount: "1110", Receiver: lw.Orb.String(), Memo: Memo(lw.FwdInternal(lw.Bob), nil)},
					{Label: "after restart: internal uother", Base: denomOTH, Amount: "2220", Receiver: lw.Orb.String(), Memo: Memo(lw.FwdInternal(lw.Bob), lw.feeMenu()[1])},
					{Label: "after restart: refused", Base: denomUSDC, Amount: "3330", Receiver: lw.Orb.String(), Memo: Memo(lw.FwdInternal(lw.Dust), nil)}} {
					o, err := l2.RunStep(st)
					if err != nil {
						return lw.Transcript, err
					}
					if o.AckSuccess {
						v, _ := parseIntLikeSDK(st.Amount)
						if foldIn[st.Base] == nil {
							foldIn[st.Base] = new(big.Int)
						}
						foldIn[st.Base].Add(foldIn[st.Base], v)
						foldN++
					}
				}
				checkFold(l2, "after a restart from the exported state and three more transfers")
			}
		}
		rep.Count("loop_blocks", lw.Height-2)
		rep.Extra["loop_block_noise_stores"] = func() []string {
			var n []string
			for k := range lw.noise {
				n = append(n, k)
			}
			sort.Strings(n)
			return n
		}()
	}
	return lw.Transcript, nil
}

// ---------------------------------------------------------------------------------------------
// Restart: the whole application state is exported (ExportAppStateAndValidators, as `export` does on a node), a fresh
// application is initialised from that genesis with InitChain at the exported height (as a chain restart / upgrade by
// genesis does) and the first block is executed. The returned world stands on the restarted chain.
func (lw *LoopWorld) Restart() (*LoopWorld, []byte, error) {
	exp, err := lw.App.ExportAppStateAndValidators(false, nil, nil)
	if err != nil {
		return nil, nil, fmt.Errorf("export: %w", err)
	}
	app2, err := NewSimApp(silentLogger, dbm.NewMemDB(), nil, true, sims.EmptyAppOptions{}, baseapp.SetChainID(chainID))
	if err != nil {
		return nil, nil, err
	}
	var ierr error
	func() {
		defer func() {
			if r := recover(); r != nil {
				ierr = fmt.Errorf("panic: %v", r) // module InitGenesis functions panic on a genesis they refuse
			}
		}()
		_, ierr = app2.InitChain(&abci.RequestInitChain{ChainId: chainID, ConsensusParams: sims.DefaultConsensusParams, AppStateBytes: exp.AppState,
			Time: loopTime(exp.Height - 1), InitialHeight: exp.Height})
	}()
	if ierr != nil {
		return nil, exp.AppState, fmt.Errorf("InitChain from the exported genesis: %w", ierr)
	}
	w2 := *lw.World
	w2.App = app2
	stack, ok := app2.IBCKeeper.Router.GetRoute("transfer")
	if !ok {
		return nil, exp.AppState, fmt.Errorf("no transfer route")
	}
	w2.Stack = stack
	var ref porttypes.IBCModule = transfer.NewIBCModule(app2.TransferKeeper)
	w2.Ref = blockibc.NewIBCMiddleware(ref, app2.FTFKeeper)
	w2.UseInstr = nil
	n := &LoopWorld{World: &w2, Height: exp.Height, privs: lw.privs, seqs: map[string]uint64{}, Relayer: lw.Relayer, AuthOK: lw.AuthOK,
		Vouchers: lw.Vouchers, noise: lw.noise}
	for k, v := range lw.seqs {
		n.seqs[k] = v
	}
	if _, err := n.Block(); err != nil {
		return nil, exp.AppState, err
	}
	return n, exp.AppState, nil
}

// loopRestartCheck (C17 at chain level): at several points of a real block history the WHOLE application state is
// exported and a fresh chain is initialised from it; the orbiter genesis must re-export byte-identically from the new
// chain, and the same continuation (transfers to paused and unpaused destinations, accumulating transfers, admin
// transactions) must produce the same transaction codes, acknowledgements and refunds on the original and on the
// restarted chain, ending in identical orbiter exports. generations>1: a restarted chain is restarted again.
func loopRestartCheck(rep *Report, full bool) error {
	lw, err := NewLoopWorld()
	if err != nil {
		return err
	}
	auth, _ := sdk.AccAddressFromBech32(lw.Authority)
	mk := func(o Op) sdk.Msg { m, _ := o.Msg.Build(); return m }
	menu := lw.loopMenu(false)
	// continuation: a fixed selection of the menu (every 7th step: all routes, fee shapes, refusals) + the restart-sensitive
	// things: accumulating transfers on routes that already have totals, probes of paused destinations, a size probe
	var cont []LoopStep
	for i, s := range menu {
		if i%7 == 0 && !s.Timeout {
			cont = append(cont, s)
		}
	}
	orb := lw.Orb.String()
	cont = append(cont,
		LoopStep{Label: "cctp(0) again", Base: denomUSDC, Amount: "2500", Receiver: orb, Memo: Memo(lw.FwdCCTP(0), lw.feeMenu()[1])},
		LoopStep{Label: "hyp(1) again", Base: denomUSDC, Amount: "2600", Receiver: orb, Memo: Memo(lw.FwdHyp(1), nil)},
		LoopStep{Label: "hyp(2)", Base: denomUSDC, Amount: "2650", Receiver: orb, Memo: Memo(lw.FwdHyp(2), nil)},
		LoopStep{Label: "internal again", Base: denomUSDC, Amount: "2700", Receiver: orb, Memo: Memo(lw.FwdInternal(lw.Bob), lw.feeMenu()[2])},
		LoopStep{Label: "internal uother again", Base: denomOTH, Amount: "2800", Receiver: orb, Memo: Memo(lw.FwdInternal(lw.Bob), nil)},
		LoopStep{Label: "cctp(2010) (paused in bulk at a later stage)", Base: denomUSDC, Amount: "10", Receiver: orb, Memo: Memo(Fwd{Kind: "cctp", Domain: 2010, MintRecipient: b32(9)}, nil)},
		LoopStep{Label: "cctp(2049) (paused in bulk at a later stage)", Base: denomUSDC, Amount: "10", Receiver: orb, Memo: Memo(Fwd{Kind: "cctp", Domain: 2049, MintRecipient: b32(9)}, nil)},
		LoopStep{Label: "passthrough 2B", Base: denomUSDC, Amount: "10", Receiver: orb, Memo: Memo(Fwd{Kind: "cctp", Domain: 0, MintRecipient: b32(9), Passthrough: []byte{1, 2}}, nil)},
		LoopStep{Label: "passthrough 9B", Base: denomUSDC, Amount: "10", Receiver: orb, Memo: Memo(Fwd{Kind: "cctp", Domain: 0, MintRecipient: b32(9), Passthrough: []byte{1, 2, 3, 4, 5, 6, 7, 8, 9}}, nil)})
	type stage struct {
		name string
		run  func() error
	}
	adminTx := func(label string, o Op) error {
		if !lw.AuthOK {
			return nil
		}
		ob, err := lw.RunAdmin(auth, true, mk(o))
		if err != nil {
			return err
		}
		if ob.Code != 0 {
			return fmt.Errorf("admin %s failed: %s", label, ob.Log)
		}
		return nil
	}
	runSteps := func(from, to int) func() error {
		return func() error {
			for _, s := range menu[from:to] {
				if _, err := lw.RunStep(s); err != nil {
					return err
				}
			}
			return nil
		}
	}
	stages := []stage{
		{"fresh chain (default orbiter state)", func() error { return nil }},
		{"after 40 transfers on all routes and two denominations on one route", func() error {
			if err := runSteps(0, 40)(); err != nil {
				return err
			}
			for _, st := range []LoopStep{
				{Label: "internal uusdc", Base: denomUSDC, Amount: "4300", Receiver: lw.Orb.String(), Memo: Memo(lw.FwdInternal(lw.Bob), nil)},
				{Label: "internal uother (same route, other denomination)", Base: denomOTH, Amount: "4400", Receiver: lw.Orb.String(), Memo: Memo(lw.FwdInternal(lw.Bob), nil)}} {
				if _, err := lw.RunStep(st); err != nil {
					return err
				}
			}
			return nil
		}},
		{"after pauses and a parameter change by the authority", func() error {
			for _, st := range []struct {
				l string
				o Op
			}{{"PauseProtocol(CCTP)", lw.OpPauseProtocol("PROTOCOL_CCTP")}, {"PauseCC(HYP,1)", lw.OpPauseCC("PROTOCOL_HYPERLANE", "1")},
				{"PauseCC(INTERNAL,noble)+unpause", lw.OpPauseCC("PROTOCOL_IBC", "channel-0", "channel-5")},
				{"PauseAction(SWAP)", lw.OpPauseAction("ACTION_SWAP")}, {"UpdateParams(4)", lw.OpUpdateParams(4)}} {
				if err := adminTx(st.l, st.o); err != nil {
					return err
				}
			}
			return runSteps(40, 60)()
		}},
		{"collections larger than one query page (150 paused ids, 130 statistics entries) and a stray balance", func() error {
			for _, e := range []string{"bulk-pause-150", "bulk-stats-130"} {
				if err := lw.ApplyEnv(lw.Ctx, e); err != nil {
					return err
				}
			}
			if err := lw.Deposit(lw.Ctx, lw.Orb, denomUSDC, 5); err != nil {
				return err
			}
			_, err := lw.Block()
			return err
		}},
		{"fee action paused, CCTP unpaused", func() error {
			if err := adminTx("PauseAction(FEE)", lw.OpPauseAction("ACTION_FEE")); err != nil {
				return err
			}
			return adminTx("UnpauseProtocol(CCTP)", lw.OpUnpauseProtocol("PROTOCOL_CCTP"))
		}},
	}
	if !full {
		stages = stages[:4]
	}
	orbGen := func(l *LoopWorld) (string, error) {
		exp, err := l.App.ExportAppStateAndValidators(false, nil, nil)
		if err != nil {
			return "", err
		}
		var m map[string]json.RawMessage
		if err := jsonUnmarshal(exp.AppState, &m); err != nil {
			return "", err
		}
		return string(m["orbiter"]), nil
	}
	violate := func(kind, label, what string, gen string) {
		rep.Violate(Violation{Kind: kind, Group: "chain-restart", Sig: "restart: " + label,
			Replay: mustJSON(map[string]any{"restart": label, "orbiter_genesis": json.RawMessage(gen)}), What: what + " [chain restart " + label + "]"})
	}
	for _, st := range stages {
		if err := st.run(); err != nil {
			return fmt.Errorf("restart stage %q: %w", st.name, err)
		}
		gens := 1
		if full {
			gens = 2
		}
		cur := lw
		for g := 1; g <= gens; g++ {
			label := fmt.Sprintf("%s, generation %d", st.name, g)
			before, err := orbGen(cur)
			if err != nil {
				return err
			}
			next, _, err := cur.Restart()
			rep.Count("chain_restarts", 1)
			rep.Count("evaluations", 1)
			if err != nil {
				violate("exported-genesis-does-not-initialise-a-chain", label, "the application state exported after this history does not initialise a fresh chain: "+err.Error(), before)
				break
			}
			after, err := orbGen(next)
			if err != nil {
				return err
			}
			if oa, ob := cur.observables(cur.Ctx), next.observables(next.Ctx); oa != ob {
				violate("restarted-chain-answers-queries-differently", label, "the module's query answers (pause sets, parameters, every statistics listing and direct lookup) differ between the chain and its restart from exported genesis: "+firstDiff(oa, ob), before)
			}
			if before != after {
				violate("chain-restart-reexport-differs", label, fmt.Sprintf("orbiter genesis re-exported from the restarted chain differs from the exported one (%d vs %d bytes)", len(after), len(before)), before)
			} else {
				rep.Outcome("chain-restart-reexport-identical")
			}
			cur = next
		}
		// behavioural equivalence: the same continuation on the last generation of the restarted chain and on the ORIGINAL
		// chain (which thereby moves on; the next stage builds on it)
		run := func(l *LoopWorld) ([]string, string, error) {
			var out []string
			for _, s := range cont {
				o, err := l.RunStep(s)
				if err != nil {
					return nil, "", err
				}
				out = append(out, fmt.Sprintf("%s: sendable=%v code=%d ack=%s refund=%s mismatch=%d", s.Label, o.Sendable, o.RecvCode, trunc(string(o.Ack), 200), o.Refund, len(o.Mismatch)))
				rep.Count("evaluations", 1)
			}
			g, err := orbGen(l)
			return out, g + "\n" + l.observables(l.Ctx), err
		}
		a, ga, err := run(cur)
		if err != nil {
			return fmt.Errorf("continuation on the restarted chain (stage %q): %w", st.name, err)
		}
		b, gb, err := run(lw)
		if err != nil {
			return fmt.Errorf("continuation on the reference chain (stage %q): %w", st.name, err)
		}
		same := len(a) == len(b)
		for i := range a {
			if !same || a[i] != b[i] {
				same = false
				violate("restarted-chain-behaves-differently", st.name+" / "+cont[i].Label,
					fmt.Sprintf("the same continuation step gives different results after a restart from exported genesis:\n  restarted: %s\n  reference: %s", a[i], b[i]), "null")
				break
			}
		}
		if same && ga != gb {
			violate("restarted-chain-ends-in-different-state", st.name, "after the same continuation the orbiter exports differ between the restarted chain and the reference", ga)
		}
		if same && ga == gb {
			rep.Outcome("chain-restart-continuation-identical")
		}
		rep.Count("traces_validated_against_impl", int64(len(a)))
	}
	return nil
}

func firstDiff(a, b string) string {
	i := 0
	for i < len(a) && i < len(b) && a[i] == b[i] {
		i++
	}
	lo := i - 80
	if lo < 0 {
		lo = 0
	}
	return fmt.Sprintf("…%s  VERSUS  …%s", trunc(a[lo:], 260), trunc(b[lo:], 260))
}

// loopDeliverAll: every input goes through the REAL receive path — the packet commitment is written on the sending end,
// a relayer's signed MsgRecvPacket is executed in a block (baseapp runTx -> IBC core RecvPacket -> transfer stack) — on
// `instances` independent chains in parallel. The transaction must succeed (a panic or any other abort of the
// enclosing transaction is what C14 forbids), core must have stored the acknowledgement, and the emulated envelope on a
// branch of the same state must agree (acknowledgement bytes, verdict, stores).
type loopInput struct {
	Label string
	Data  []byte
}

func loopDeliverAll(rep *Report, inputs []loopInput, instances int) {
	lws := make([]*LoopWorld, instances)
	errs := make([]error, instances)
	var wg sync.WaitGroup
	for i := range lws {
		wg.Add(1)
		go func(i int) {
			defer wg.Done()
			lws[i], errs[i] = NewLoopWorld()
		}(i)
	}
	wg.Wait()
	for _, e := range errs {
		if e != nil {
			rep.HarnessError("real receive path: fixture: %v", e)
			return
		}
	}
	for wi := range lws {
		wg.Add(1)
		go func(wi int) {
			defer wg.Done()
			lw := lws[wi]
			done := 0
			for i := wi; i < len(inputs); i += len(lws) {
				in := inputs[i]
				if done > 0 && done%2000 == 0 {
					// a fresh chain every 2000 deliveries: the block history (IAVL versions in the memory database, ibc
					// receipts) does not have to grow with the size of the input list
					n, err := NewLoopWorld()
					if err != nil {
						rep.HarnessError("real receive path: fixture: %v", err)
						return
					}
					lw = n
				}
				done++
				if len(in.Data) == 0 {
					continue // MsgRecvPacket.ValidateBasic refuses empty data: it never reaches a callback
				}
				o, err := lw.RunStep(LoopStep{Label: in.Label, Raw: in.Data})
				if err != nil {
					rep.HarnessError("real receive path: %s: %v", trunc(in.Label, 120), err)
					return
				}
				rep.Count("real_path_deliveries", 1)
				rep.Count("evaluations", 1)
				sig := "real path: " + trunc(in.Label, 300)
				replay := mustJSON(map[string]any{"real_path_data": in.Data})
				if o.RecvCode != 0 {
					rep.Violate(Violation{Kind: "real-recv-transaction-aborted", Group: "real-path", Sig: sig, Replay: replay,
						What: fmt.Sprintf("the relayer's MsgRecvPacket transaction FAILED (code %d: %s): the receive path aborted the enclosing transaction instead of returning an acknowledgement [%s]", o.RecvCode, trunc(o.RecvLog, 300), trunc(in.Label, 300))})
					continue
				}
				if len(o.Ack) == 0 {
					rep.Violate(Violation{Kind: "real-recv-no-acknowledgement", Group: "real-path", Sig: sig, Replay: replay,
						What: fmt.Sprintf("the RecvPacket transaction succeeded but IBC core wrote NO acknowledgement (a nil acknowledgement is an asynchronous one: state committed, sender never answered) [%s]", trunc(in.Label, 300))})
					continue
				}
				for _, m := range o.Mismatch {
					if strings.HasPrefix(m, "acknowledgement differs") && !o.AckSuccess && !o.EmuSuccess {
						// two refusals with different TEXT: repeatability of error text is C19's subject (KF-4), not C14's
						rep.Count("real_path_refusal_text_differs_between_two_executions", 1)
						continue
					}
					rep.Violate(Violation{Kind: "emulated-envelope-disagrees-with-real", Group: "real-path", Sig: sig, Replay: replay, What: m + " [" + trunc(in.Label, 300) + "]"})
				}
				if o.AckSuccess {
					rep.Outcome("real-path-success-ack")
				} else {
					rep.Outcome("real-path-error-ack")
				}
			}
		}(wi)
	}
	wg.Wait()
}

// loopAuthorityCheck (C10 at transaction level): every discovered orbiter Msg RPC in real signed transactions — signed
// and named by somebody else; named as the authority but signed by somebody else (the ante handler must refuse); signed
// by the authority (must succeed, except where noted). A refused transaction must leave every store a transaction-free
// block does not touch unchanged.
func loopAuthorityCheck(rep *Report, rpcs []rpcInfo, valid map[string]MsgSpec) error {
	lw, err := NewLoopWorld()
	if err != nil {
		return err
	}
	if !lw.AuthOK {
		rep.Count("loop_authority_key_unavailable", 1)
		return nil
	}
	auth, _ := sdk.AccAddressFromBech32(lw.Authority)
	mk := func(o Op) sdk.Msg { m, _ := o.Msg.Build(); return m }
	// a state in which every valid body is applicable (things to unpause exist)
	for _, o := range []Op{lw.OpPauseProtocol("PROTOCOL_CCTP"), lw.OpPauseCC("PROTOCOL_CCTP", "0"), lw.OpPauseAction("ACTION_FEE")} {
		if ob, err := lw.RunAdmin(auth, true, mk(o)); err != nil || ob.Code != 0 {
			return fmt.Errorf("authority set-up transaction %s failed: %v %s", o.Label, err, ob.Log)
		}
	}
	for _, ri := range rpcs {
		vs, ok := valid[ri.Method]
		if !ok || ri.GoType == nil {
			continue
		}
		vs.Signer = "x"
		body, err := vs.Build()
		if err != nil {
			continue
		}
		label := ri.Service + "/" + ri.Method
		try := func(kind string, signer sdk.AccAddress, named string, wantOK *bool) error {
			pre := lw.storeHashes(lw.Ctx)
			tx, err := lw.Tx(signer, setSigner(body, ri, named))
			if err != nil {
				return err
			}
			rs, err := lw.Block(tx)
			if err != nil {
				return err
			}
			if rs[0].Code != 0 {
				lw.resyncSeq(signer)
			}
			rep.Count("evaluations", 1)
			rep.Count("real_transactions", 1)
			sig := "real tx: " + label + " " + kind
			replay := mustJSON(map[string]any{"rpc": label, "real_tx": kind})
			if wantOK != nil && !*wantOK {
				if rs[0].Code == 0 {
					rep.Violate(Violation{Kind: "non-authority-accepted", Group: ri.Method + " " + kind, Sig: sig, Replay: replay,
						What: fmt.Sprintf("a real transaction with %s (%s) SUCCEEDED: %s", label, kind, trunc(rs[0].Log, 200))})
				} else if d := lw.quietDiff(pre, lw.storeHashes(lw.Ctx)); len(d) > 0 {
					rep.Violate(Violation{Kind: "refused-but-state-changed", Group: ri.Method, Sig: sig, Replay: replay, What: fmt.Sprintf("the refused transaction (%s, %s) changed stores %v", label, kind, d)})
				} else {
					rep.Outcome("real-tx-non-authority-refused")
				}
			}
			if wantOK != nil && *wantOK {
				if rs[0].Code != 0 {
					rep.Violate(Violation{Kind: "authority-refused", Group: ri.Method, Sig: sig, Replay: replay, What: fmt.Sprintf("the authority's signed transaction with a valid %s failed: code %d %s", label, rs[0].Code, trunc(rs[0].Log, 300))})
				} else {
					rep.Outcome("real-tx-authority-succeeded")
				}
			}
			return nil
		}
		no, yes := false, true
		if err := try("signed and named by another account", lw.Mallory, lw.Mallory.String(), &no); err != nil {
			return err
		}
		if err := try("naming the authority, signed by another account", lw.Mallory, lw.Authority, &no); err != nil {
			return err
		}
		if ri.Method == "ReplaceDepositForBurn" {
			continue // its valid body needs a burn message of THIS chain; the authorised half is covered at handler level
		}
		if err := try("signed by the authority", auth, lw.Authority, &yes); err != nil {
			return err
		}
	}
	return nil
}
