package simapp

// C20 — cross-chain identifiers are canonical and mean what transfers record.
// E2: exhaustive over all strings up to length 4 over a 10-symbol alphabet (+ targeted strings) × protocol ids;
// thorough: all 2^32 domains for the agreement clause; dynamic part on the full application.

import (
	"fmt"
	"runtime"
	"strconv"
	"strings"
	"sync"
	"sync/atomic"

	"cosmossdk.io/math"

	dispatchertypes "github.com/noble-assets/orbiter/v2/types/component/dispatcher"
	"github.com/noble-assets/orbiter/v2/types/core"
	fwdtypes "github.com/noble-assets/orbiter/v2/types/controller/forwarding"
	forwardertypes "github.com/noble-assets/orbiter/v2/types/component/forwarder"
	orbtypes "github.com/noble-assets/orbiter/v2/types"
)

// idRef: the canonical decimal form of a 32-bit domain.
func idRef(d uint32) string { return strconv.FormatUint(uint64(d), 10) }

// canonicalDomain: s is exactly the decimal form of a 32-bit unsigned integer.
func canonicalDomain(s string) (uint32, bool) {
	v, err := strconv.ParseUint(s, 10, 32)
	if err != nil || strconv.FormatUint(v, 10) != s {
		return 0, false
	}
	return uint32(v), true
}

func c20Strings() []string {
	alpha := []string{"0", "1", "9", "+", "-", " ", ":", "a", ".", "_"}
	out := []string{""}
	cur := []string{""}
	for l := 1; l <= 4; l++ {
		var next []string
		for _, p := range cur {
			for _, a := range alpha {
				next = append(next, p+a)
			}
		}
		out = append(out, next...)
		cur = next
	}
	out = append(out, "4294967295", "4294967296", "04294967295", "+4294967295", "9223372036854775807", "9223372036854775808", "18446744073709551615", "18446744073709551616",
		strings.Repeat("1", 32), strings.Repeat("1", 33), strings.Repeat("0", 32), "channel-0", "channel-00", "channel-01", "channel-+1", "channel-18446744073709551615", "channel-18446744073709551616",
		"channel-", "channel", "Channel-1", "channel-1 ", "0x1", "0X1", "0b1", "0o7", "1e3", "1_000", "١", "１", "1\x00", "\x001", "1\n", "noble", "noble:1", "4:noble", "00", "000", "-0", "+0", "0 ", " 0", "2", "02", "+2", "2 ", "3", "10", "010",
		// bytes that are not valid UTF-8 (a transaction can carry them), a lone surrogate, non-characters, look-alikes
		"\xff", "\xfe", "a\xffb", "\xed\xa0\x80", "1\xff", "\xc0\xb1", "\ufffd", "\u2028", "noble\u200b", "nоble")
	return out
}

func init() { register("C20", checkC20) }

func checkC20(tier string) *Report {
	rep := NewReport("C20", tier, "exploration")
	rep.Rule = "all 11111 strings of length <= 4 over {0,1,9,+,-,space,:,a,.,_} plus ~55 targeted strings × protocol ids {-1..5}; round-trip, injectivity, canon and entry-point agreement on each; thorough: all 2^32 domains for the attribute agreement clause; dynamic: every accepted CCTP/Hyperlane string is paused on the full app and a transfer to the domain it denotes is probed. Non-trivial = the (protocol, string) pair is accepted by validation"
	rep.Assumptions = []string{"INTERNAL counterparties are free-form by design; IBC counterparties are ibc-go channel identifiers; the canon clause is about CCTP and Hyperlane"}
	strs := c20Strings()
	protos := []int32{-1, 0, 1, 2, 3, 4, 5}
	idToPair := map[string]string{}
	accepted := map[int32][]string{}
	for _, p := range protos {
		for _, s := range strs {
			rep.Count("evaluations", 1)
			pid := core.ProtocolID(p)
			err := core.ValidateCounterpartyID(s, pid)
			_, errN := core.NewCrossChainID(pid, s)
			pairOK := errN == nil
			sig := fmt.Sprintf("protocol=%d counterparty=%q", p, s)
			replay := mustJSON(map[string]any{"protocol": p, "counterparty": s})
			if pairOK && err != nil {
				rep.Violate(Violation{Kind: "constructor-accepts-what-validation-rejects", Sig: sig, Replay: replay, What: "NewCrossChainID accepts but ValidateCounterpartyID rejects " + sig})
			}
			if !pairOK {
				continue
			}
			rep.Distinct(sig)
			accepted[p] = append(accepted[p], s)
			cc := core.CrossChainID{ProtocolId: pid, CounterpartyId: s}
			id := cc.ID()
			// (1) round trip
			back, perr := core.ParseCrossChainID(id)
			if perr != nil || back.ProtocolId != pid || back.CounterpartyId != s {
				rep.Violate(Violation{Kind: "id-does-not-round-trip", Sig: sig, Replay: replay, What: fmt.Sprintf("ParseCrossChainID(ID(%s)) = (%d,%q) err=%v (textual form %q)", sig, back.ProtocolId, back.CounterpartyId, perr, id)})
			}
			// (2) injectivity
			if prev, dup := idToPair[id]; dup && prev != sig {
				rep.Violate(Violation{Kind: "id-collision", Sig: sig, Replay: replay, What: fmt.Sprintf("textual form %q denotes both %s and %s", id, prev, sig)})
			}
			idToPair[id] = sig
			// (3) canon for CCTP / Hyperlane
			if pid == core.PROTOCOL_CCTP || pid == core.PROTOCOL_HYPERLANE {
				if _, ok := canonicalDomain(s); !ok {
					rep.Violate(Violation{Kind: "non-canonical-domain-accepted", Group: pid.String(), Sig: sig, Replay: replay,
						What: fmt.Sprintf("%s accepts counterparty %q, which is not the decimal form of a 32-bit domain (transfers are matched and recorded under the canonical decimal string)", pid, s)})
				}
			}
		}
	}
	// canon, converse: every canonical domain string in the enumeration is accepted
	for _, s := range strs {
		if _, ok := canonicalDomain(s); ok {
			for _, pid := range []core.ProtocolID{core.PROTOCOL_CCTP, core.PROTOCOL_HYPERLANE} {
				if err := core.ValidateCounterpartyID(s, pid); err != nil {
					rep.Violate(Violation{Kind: "canonical-domain-rejected", Sig: fmt.Sprintf("%s %q", pid, s), Replay: mustJSON(s), What: fmt.Sprintf("%s rejects canonical domain %q: %v", pid, s, err)})
				}
			}
		}
	}
	// (4) agreement with the strings produced by the forwarding attributes
	var doms []uint32
	for d := uint32(0); d < 2000; d++ {
		doms = append(doms, d)
	}
	for k := 8; k <= 32; k++ {
		v := uint64(1) << uint(k)
		for _, x := range []uint64{v - 1, v, v + 1} {
			if x <= 4294967295 {
				doms = append(doms, uint32(x))
			}
		}
	}
	doms = append(doms, 999999999, 1000000000, 4294967294, 4294967295, fwdtypes.HypNobleMainnetDomain, fwdtypes.HypNobleTestnetDomain, 10, 100, 1000, 10000)
	agree := func(d uint32) string {
		want := idRef(d)
		c := (&fwdtypes.CCTPAttributes{DestinationDomain: d}).CounterpartyID()
		h := (&fwdtypes.HypAttributes{DestinationDomain: d}).CounterpartyID()
		if c != want || h != want {
			return fmt.Sprintf("domain %d: CCTP attributes give %q, Hyperlane attributes give %q, canonical is %q", d, c, h, want)
		}
		return ""
	}
	for _, d := range doms {
		rep.Count("evaluations", 1)
		if msg := agree(d); msg != "" {
			rep.Violate(Violation{Kind: "attribute-id-not-canonical", Sig: fmt.Sprint(d), Replay: mustJSON(d), What: msg})
		}
		for _, pid := range []core.ProtocolID{core.PROTOCOL_CCTP, core.PROTOCOL_HYPERLANE} {
			if err := core.ValidateCounterpartyID(idRef(d), pid); err != nil {
				rep.Violate(Violation{Kind: "canonical-domain-rejected", Sig: fmt.Sprintf("%s %d", pid, d), Replay: mustJSON(d), What: fmt.Sprintf("%s rejects canonical domain %d: %v", pid, d, err)})
			}
		}
	}
	if tier == "thorough" {
		nw := runtime.NumCPU()
		var wg sync.WaitGroup
		var bad int64
		var first atomic.Value
		chunk := uint64(1<<32) / uint64(nw)
		for i := 0; i < nw; i++ {
			wg.Add(1)
			go func(i int) {
				defer wg.Done()
				lo, hi := uint64(i)*chunk, uint64(i+1)*chunk
				if i == nw-1 {
					hi = 1 << 32
				}
				for d := lo; d < hi; d++ {
					if msg := agree(uint32(d)); msg != "" {
						if atomic.AddInt64(&bad, 1) == 1 {
							first.Store(msg)
						}
					}
				}
			}(i)
		}
		wg.Wait()
		rep.Count("evaluations", 1<<32)
		rep.Extra["all_2^32_domains_enumerated"] = true
		if bad > 0 {
			rep.Violate(Violation{Kind: "attribute-id-not-canonical", Sig: "full-range", Replay: mustJSON("full range"), What: fmt.Sprintf("%d domains disagree; first: %v", bad, first.Load())})
		}
	}
	// (5) dynamic part
	c20Dynamic(rep, accepted)
	rep.Sample(map[string]any{"accepted_CCTP": firstN(accepted[2], 12), "accepted_INTERNAL_count": len(accepted[4]), "accepted_IBC": firstN(accepted[1], 8)})
	rep.Guard(len(accepted[2]) >= 50 && len(accepted[3]) >= 50 && len(accepted[4]) > 1000 && len(accepted[1]) >= 2, "acceptance sets look wrong: cctp=%d hyp=%d internal=%d ibc=%d", len(accepted[2]), len(accepted[3]), len(accepted[4]), len(accepted[1]))
	rep.Guard(len(accepted[0]) == 0 && len(accepted[-1]) == 0 && len(accepted[5]) == 0, "unsupported protocols accept counterparties")
	return rep
}

func firstN(s []string, n int) []string {
	if len(s) > n {
		return s[:n]
	}
	return s
}

// c20Dynamic: the three entry points (pause message, IsCrossChainPaused query, genesis validation) accept the
// same strings, and a successful pause of an identifier covers the transfers it names.
func c20Dynamic(rep *Report, accepted map[int32][]string) {
	w, err := NewWorld()
	if err != nil {
		rep.HarnessError("fixture: %v", err)
		return
	}
	strs := c20Strings()
	// keep the dynamic part affordable: every string of length <= 2 plus everything pure validation accepted plus targeted strings
	sel := map[string]bool{}
	for _, s := range strs {
		if len(s) <= 2 || len(s) > 4 {
			sel[s] = true
		}
	}
	for _, p := range []int32{2, 3} {
		for _, s := range accepted[p] {
			sel[s] = true
		}
	}
	probeFor := func(proto string, d uint32) Pkt {
		f := w.FwdCCTP(d)
		if proto == "PROTOCOL_HYPERLANE" {
			f = w.FwdHyp(d)
		}
		return NewPkt("channel-0", denomUSDC, "1000", w.Orb.String(), Memo(f, nil))
	}
	for _, proto := range []string{"PROTOCOL_CCTP", "PROTOCOL_HYPERLANE"} {
		pid := core.ProtocolID(core.ProtocolID_value[proto])
		for s := range sel {
			rep.Count("evaluations", 1)
			sig := fmt.Sprintf("dynamic %s %q", proto, s)
			b := Branch(w.Ctx)
			op := w.OpPauseCC(proto, s)
			res := w.Apply(b, op)
			msgOK := res.Succeeded()
			_, qerr := w.QIsCrossChainPaused(w.Ctx, proto, s)
			qOK := qerr == nil
			g := orbtypes.DefaultGenesisState()
			g.ForwarderGenesis = &forwardertypes.GenesisState{PausedCrossChainIds: []*core.CrossChainID{{ProtocolId: pid, CounterpartyId: s}}}
			gOK := g.Validate() == nil
			replay := mustJSON(map[string]any{"ops": []Op{op}})
			if res.Msg != nil && res.Msg.Panic != "" {
				rep.Violate(Violation{Kind: "panic", Sig: sig, Replay: replay, What: "pause message panicked: " + res.Msg.Panic})
				continue
			}
			if msgOK != qOK || msgOK != gOK {
				rep.Violate(Violation{Kind: "entry-points-disagree", Group: proto, Sig: sig, Replay: replay,
					What: fmt.Sprintf("%s counterparty %q: pause message accepts=%v, IsCrossChainPaused query accepts=%v, genesis validation accepts=%v", proto, s, msgOK, qOK, gOK)})
			}
			// genesis IMPORT (what InitChain runs; it does not call ValidateGenesis): the identifier as the source of a
			// count entry, as the destination of an amount entry and as a paused cross-chain. An import that completes
			// has accepted the identifier.
			if _, canon := canonicalDomain(s); !canon {
				one := math.NewInt(1)
				docs := map[string]*orbtypes.GenesisState{}
				gc := orbtypes.DefaultGenesisState()
				gc.DispatcherGenesis.DispatchedCounts = []dispatchertypes.DispatchCountEntry{{SourceId: &core.CrossChainID{ProtocolId: pid, CounterpartyId: s}, DestinationId: &core.CrossChainID{ProtocolId: core.PROTOCOL_CCTP, CounterpartyId: "0"}, Count: 1}}
				docs["dispatched_counts source"] = gc
				ga := orbtypes.DefaultGenesisState()
				ga.DispatcherGenesis.DispatchedAmounts = []dispatchertypes.DispatchedAmountEntry{{SourceId: &core.CrossChainID{ProtocolId: core.PROTOCOL_IBC, CounterpartyId: "channel-0"}, DestinationId: &core.CrossChainID{ProtocolId: pid, CounterpartyId: s}, Denom: denomUSDC,
					AmountDispatched: dispatchertypes.AmountDispatched{Incoming: one, Outgoing: one}}}
				docs["dispatched_amounts destination"] = ga
				gs := orbtypes.DefaultGenesisState()
				gs.DispatcherGenesis.DispatchedAmounts = []dispatchertypes.DispatchedAmountEntry{{SourceId: &core.CrossChainID{ProtocolId: pid, CounterpartyId: s}, DestinationId: &core.CrossChainID{ProtocolId: core.PROTOCOL_INTERNAL, CounterpartyId: "noble"}, Denom: denomUSDC,
					AmountDispatched: dispatchertypes.AmountDispatched{Incoming: one, Outgoing: one}}}
				docs["dispatched_amounts source"] = gs
				docs["paused_cross_chains"] = g
				for where, doc := range docs {
					ib := Branch(w.Ctx)
					w.wipeOrbiterStore(ib)
					var ipan any
					func() {
						defer func() { ipan = recover() }()
						w.App.OrbiterKeeper.InitGenesis(ib, *doc)
					}()
					rep.Count("genesis_imports", 1)
					if ipan == nil {
						rep.Violate(Violation{Kind: "non-canonical-identifier-accepted-by-genesis-import", Group: proto + " " + where, Sig: sig + " " + where, Replay: mustJSON(map[string]any{"genesis_label": where, "identifier": s}),
							What: fmt.Sprintf("InitGenesis completes with the non-canonical %s identifier %q in %s", proto, s, where)})
					}
				}
			}
			if !msgOK {
				continue
			}
			rep.Distinct(sig)
			// the identifier denotes a domain: a transfer to that domain must now be refused
			d, canon := canonicalDomain(s)
			if !canon {
				// non-canonical but accepted: which domain would a reader think it names? strconv.Atoi's value if any
				if v, e := strconv.Atoi(strings.TrimSpace(s)); e == nil && v >= 0 && v <= 4294967295 {
					d = uint32(v)
				} else {
					continue // reported by the pure canon clause already
				}
			}
			// only probe domains the fixture can route to
			routable := (proto == "PROTOCOL_CCTP" && (d == 0 || d == 1)) || (proto == "PROTOCOL_HYPERLANE" && (d == 1 || d == 2))
			if !routable {
				continue
			}
			pkt := probeFor(proto, d)
			ctl := w.Recv(Branch(w.Ctx), pkt)
			r := w.Recv(Branch(b), pkt)
			if !ctl.Success {
				rep.HarnessError("control transfer to %s:%d fails on W0: %s", proto, d, ctl.AckErr())
				continue
			}
			rep.Count("pause_then_probe", 1)
			if r.Success {
				rep.Violate(Violation{Kind: "successful-pause-does-not-cover-named-transfers", Group: proto, Sig: sig, Replay: mustJSON(map[string]any{"ops": []Op{op, {Label: "probe", Pkt: &pkt}}, "expect": []replayExpect{{Kind: "last_success", Want: false}}}),
					What: fmt.Sprintf("PauseCrossChains(%s,[%q]) succeeded but a transfer to domain %d is still executed", proto, s, d)})
			} else {
				rep.Outcome("pause-covers-transfer")
			}
		}
	}
	rep.Guard(rep.Outcomes["pause-covers-transfer"] >= 4, "dynamic part vacuous: %v", rep.Outcomes)
}
