package simapp

// C07 — traffic not addressed to the orbiter is handled as if the middleware were absent.
// E4 differential over E1 states: every packet is delivered, from the same state, to the application's own
// stack (blockibc -> orbiter -> transfer) and to a reference stack assembled from the same keepers without
// the orbiter middleware (blockibc -> transfer); acks, events and resulting stores must be identical.
// Other callbacks: every method of the middleware except OnRecvPacket is invoked by reflection on a
// middleware built around recording inner implementations.

import (
	"bytes"
	"fmt"
	"reflect"
	"strings"

	sdk "github.com/cosmos/cosmos-sdk/types"
	capabilitytypes "github.com/cosmos/ibc-go/modules/capability/types"
	transfertypes "github.com/cosmos/ibc-go/v8/modules/apps/transfer/types"
	clienttypes "github.com/cosmos/ibc-go/v8/modules/core/02-client/types"
	channeltypes "github.com/cosmos/ibc-go/v8/modules/core/04-channel/types"
	porttypes "github.com/cosmos/ibc-go/v8/modules/core/05-port/types"
	ibcexported "github.com/cosmos/ibc-go/v8/modules/core/exported"

	"github.com/noble-assets/orbiter/v2/entrypoint"
)

func (w *World) c07Packets(full bool) []Pkt {
	var out []Pkt
	orb := w.Orb.String()
	validMemo := Memo(w.FwdInternal(w.Bob), []FeeSpec{{To: w.Fee1.String(), Bps: 100}})
	rcvs := []string{w.Bob.String(), strings.ToUpper(w.Bob.String()), w.Dust.String(), moduleAddr("cctp").String(), moduleAddr("transfer").String(),
		"noble1invalid", "", w.Carol.String(), encodingsOf(w.Orb)[2].S /* mixed case: does not decode */, encodingsOf(w.Orb)[3].S, /* bad checksum */
		encodingsOf(w.Orb)[5].S /* other HRP */, " " + orb}
	memos := []string{"", `{"foo":1}`, validMemo, MemoJSON(w.FwdCCTP(0)), `{"orbiter":{}}`, `{"orbiter":`, "not json", `{"orbiter":{"forwarding":null},"x":1}`}
	type coin struct{ denom, amt string }
	coins := []coin{{"transfer/channel-7/uusdc", "1000"}, {"transfer/channel-7/uother", "5"}, {"uatom", "1000"}, {"transfer/channel-7/transfer/channel-3/uatom", "7"},
		{"transfer/channel-7/uusdc", "0"}, {"transfer/channel-7/uusdc", "-5"}, {"transfer/channel-7/uusdc", "0x10"}, {"transfer/channel-7/uusdc", ""},
		{"", "1"}, {"transfer/channel-7/", "1"}, {"ibc/27394FB092D2ECCD56123C74F36E4C1F926001CEADA9CA97EA622B25F41E5EB2", "3"}, {"transfer/channel-7/uusdc", maxUint256Str}}
	type chans struct{ sp, sc, dp, dc string }
	chs := []chans{{"transfer", "channel-7", "transfer", "channel-0"}, {"transfer", "channel-9", "transfer", "channel-1"},
		{"transfer", "channel-noble", "transfer", "channel-0"}, {"transfer", "chan.to_noble+01", "transfer", "channel-0"},
		{"transfer", "channel-18446744073709551616", "transfer", "channel-0"}, {"transfer", "channel-7", "transfer", "channel-18446744073709551615"},
		{"icahost", "channel-7", "transfer", "channel-0"}, {"transfer", "channel-7", "transfer", "channel-5"},
		// our own end under identifiers ICS-24 accepts (up to 64 characters) but ibc-go never generates: leading zeros, longer
		// than the 32 characters orbiter allows for a counterparty identifier (only a hand-written genesis can create them)
		{"transfer", "channel-7", "transfer", "channel-0000000000000000000000000001"}, {"transfer", "channel-7", "transfer", "channel-007"},
		// our own end named as no ibc-go chain names a channel (hunt H15). A source end WITHOUT names is not in the menu: it is
		// not a packet (channeltypes.Packet.ValidateBasic, which IBC core applies before any application is called, refuses it)
		{"transfer", "channel-7", "transfer", "mychannel-0"}}
	mk := func(c chans, co coin, rcv, memo, sender string) Pkt {
		return Pkt{SrcPort: c.sp, SrcChan: c.sc, DstPort: c.dp, DstChan: c.dc, Denom: co.denom, Amount: co.amt, Sender: sender, Receiver: rcv, Memo: memo}
	}
	// (1) receivers × memos × coins on the main channel pair
	for _, r := range rcvs {
		for _, m := range memos {
			for ci, co := range coins {
				if !full && ci >= 4 && !(r == w.Bob.String()) {
					continue
				}
				p := mk(chs[0], co, r, m, defaultSender)
				if co.denom != "" && strings.HasPrefix(co.denom, "transfer/channel-7/") {
					// keep the voucher prefix consistent with the source channel
				}
				out = append(out, p)
			}
		}
	}
	// (2) channel identifiers (incl. ICS-24-valid source channels that are not of the form channel-N)
	for _, c := range chs[1:] {
		for _, r := range []string{w.Bob.String(), "noble1invalid"} {
			for _, m := range []string{"", validMemo} {
				for _, co := range []coin{{"transfer/" + c.sc + "/uusdc", "1000"}, {c.sp + "/" + c.sc + "/uusdc", "1000"}, {"uatom", "9"}} {
					out = append(out, mk(c, co, r, m, defaultSender))
				}
			}
		}
	}
	// (3) senders (blockibc decodes them for the minting denom)
	for _, s := range []string{"", "notbech32", w.Bob.String(), orb} {
		out = append(out, mk(chs[0], coins[0], w.Bob.String(), "", s), mk(chs[0], coins[0], w.Bob.String(), validMemo, s))
	}
	// (4) raw data: not ICS-20 at all, or ICS-20 JSON with structural damage — including receiver = orbiter account
	raws := []string{"", " ", "null", "{}", "[]", `"x"`, "0", `{"denom":1}`, `{"receiver":"` + orb + `"}`,
		`{"denom":"transfer/channel-7/uusdc","amount":"10","sender":"` + defaultSender + `","receiver":"` + orb + `","memo":"","extra":1}`,
		`{"denom":"transfer/channel-7/uusdc","amount":10,"sender":"` + defaultSender + `","receiver":"` + orb + `"}`,
		`{"denom":"transfer/channel-7/uusdc","amount":"10","sender":"` + defaultSender + `","receiver":"` + orb + `","memo":{}}`,
		`{"denom":"transfer/channel-7/uusdc","amount":"10","sender":"` + defaultSender + `","receiver":"` + orb + `"`,
		`{"denom":"transfer/channel-7/uusdc","amount":"10","sender":"` + defaultSender + `","receiver":["` + orb + `"]}`,
		`{"denom":"transfer/channel-7/uusdc","amount":"10","sender":"` + defaultSender + `","receiver":null,"memo":"x"}`,
		`{"denom":"transfer/channel-7/uusdc","amount":"10","sender":"` + defaultSender + `","receiver":"` + w.Bob.String() + `","receiver":"` + w.Carol.String() + `"}`,
		"\x0a\x05uusdc\x12\x0210", "\xff\xfe", strings.Repeat("{", 200)}
	alphabet := []byte(`{}[]":,a1 ` + "\x00")
	raws = append(raws, string(alphabet[:1]))
	for _, a := range alphabet {
		raws = append(raws, string([]byte{a}))
		for _, b := range alphabet {
			raws = append(raws, string([]byte{a, b}))
		}
	}
	if full {
		for _, a := range alphabet {
			for _, b := range alphabet {
				for _, c := range alphabet {
					raws = append(raws, string([]byte{a, b, c}))
				}
			}
		}
	}
	for _, r := range raws {
		out = append(out, Pkt{SrcPort: "transfer", SrcChan: "channel-7", DstPort: "transfer", DstChan: "channel-0", Raw: []byte(r)})
	}
	// (5) size ladder: nothing in the property lets the middleware treat large foreign packets differently (ICS-20 bounds
	// the memo at 32768 and the receiver at 2048 bytes when SENDING; the receiving side has no bound of its own)
	for _, L := range []int{255, 256, 1024, 2047, 2048, 2049, 4096, 8192, 16384, 32767, 32768, 32769, 65535, 65536, 65537, 131072, 262144} {
		long := strings.Repeat("a", L)
		out = append(out,
			mk(chs[0], coins[0], w.Bob.String(), long, defaultSender),                          // plain text memo of length L
			mk(chs[0], coins[0], w.Bob.String(), `{"note":"`+long+`"}`, defaultSender),          // JSON memo of length L+11
			mk(chs[0], coins[0], w.Bob.String(), `{"orbiter":"`+long+`"}`, defaultSender),       // orbiter-keyed memo, foreign receiver
			mk(chs[0], coins[0], w.Bob.String()+long, "", defaultSender),                       // receiver of length > L
			mk(chs[0], coin{"transfer/channel-7/" + long, "1"}, w.Bob.String(), "", defaultSender), // long base denom
			Pkt{SrcPort: "transfer", SrcChan: "channel-7", DstPort: "transfer", DstChan: "channel-0", Raw: []byte(long)},
			Pkt{SrcPort: "transfer", SrcChan: "channel-7", DstPort: "transfer", DstChan: "channel-0", Raw: []byte(`{"denom":"` + long + `"}`)})
	}
	// protobuf-encoded ICS-20 data
	pb := transfertypes.FungibleTokenPacketData{Denom: "transfer/channel-7/uusdc", Amount: "10", Sender: defaultSender, Receiver: w.Bob.String()}
	if bz, err := pb.Marshal(); err == nil {
		out = append(out, Pkt{SrcPort: "transfer", SrcChan: "channel-7", DstPort: "transfer", DstChan: "channel-0", Raw: bz})
	}
	return out
}

// isOrbiterTransfer: the packets C07 does NOT speak about — ICS-20 transfers whose receiver decodes to the orbiter account.
func (w *World) isOrbiterTransfer(p Pkt) bool {
	var d transfertypes.FungibleTokenPacketData
	if err := transfertypes.ModuleCdc.UnmarshalJSON(p.Data(), &d); err != nil {
		return false
	}
	return decodesTo(d.Receiver, w.Orb)
}

func maskedEqual(a, b, ref1, ref2 []Event) (bool, string) {
	if len(a) != len(b) {
		return false, fmt.Sprintf("%d events vs %d", len(a), len(b))
	}
	for i := range a {
		if a[i].Type != b[i].Type || len(a[i].Attrs) != len(b[i].Attrs) {
			return false, fmt.Sprintf("event #%d: %s(%d attrs) vs %s(%d attrs)", i, a[i].Type, len(a[i].Attrs), b[i].Type, len(b[i].Attrs))
		}
		for j := range a[i].Attrs {
			if a[i].Attrs[j] != b[i].Attrs[j] {
				// third-party noise: the reference stack itself does not reproduce this attribute across two runs
				if i < len(ref1) && i < len(ref2) && j < len(ref1[i].Attrs) && j < len(ref2[i].Attrs) && ref1[i].Attrs[j] != ref2[i].Attrs[j] {
					continue
				}
				return false, fmt.Sprintf("event #%d %s attr %s: %q vs %q", i, a[i].Type, a[i].Attrs[j][0], trunc(a[i].Attrs[j][1], 120), trunc(b[i].Attrs[j][1], 120))
			}
		}
	}
	return true, ""
}

func init() { register("C07", checkC07) }

func checkC07(tier string) *Report {
	rep := NewReport("C07", tier, "model_checking")
	full := tier == "thorough"
	rep.Rule = "every state reachable by <=D operations of an orbiter-state alphabet (pauses, parameter change, deposits, transfers, token-factory toggles) × every packet of the menu (receivers × memos × coins; channel identifiers; senders; raw byte strings up to length 2 (thorough 3) over 11 symbols; structurally damaged ICS-20 JSON), delivered to the app's stack and to the orbiter-free reference stack on two branches; non-trivial = the reference stack acknowledged with success (state changed)"
	rep.Assumptions = []string{
		"reference stack = blockibc -> transfer assembled by the harness from the application's own keepers (what simapp/ibc.go wires minus the orbiter middleware)",
		"event attributes on which two runs of the REFERENCE stack disagree are third-party noise (ibc-go v8.6.1 prints a pointer for non-positive amounts) and are masked; acks and stores are never masked",
		"IBC core discard-on-error emulated (DESIGN §1.3.1)",
	}
	worlds, err := buildWorlds(numWorkers())
	if err != nil {
		rep.HarnessError("fixture: %v", err)
		return rep
	}
	w0 := worlds[0]
	alpha := []Op{w0.OpPauseProtocol("PROTOCOL_IBC"), w0.OpPauseProtocol("PROTOCOL_INTERNAL"), w0.OpPauseCC("PROTOCOL_IBC", "channel-0"), w0.OpPauseAction("ACTION_FEE"),
		w0.OpUpdateParams(8), w0.OpDeposit(w0.Orb, denomUSDC, 5),
		w0.OpRecv("T(internal,fee)", TransferSpec{"channel-0", denomUSDC, "10000", w0.Orb.String(), w0.FwdInternal(w0.Bob), []FeeSpec{{To: w0.Fee1.String(), Bps: 100}}}.Pkt()),
		OpEnv("ftf-pause"), OpEnv("ftf-blacklist-bob")}
	depth := 2
	if full {
		depth = 3
	}
	pkts := w0.c07Packets(full)
	var use []Pkt
	skipped := 0
	for _, p := range pkts {
		if w0.isOrbiterTransfer(p) {
			skipped++
			continue
		}
		use = append(use, p)
	}
	rep.Extra["packets"] = len(use)
	rep.Extra["packets_skipped_because_orbiter_addressed"] = skipped
	x := &Explorer{Rep: rep, Prefix: alpha, Depth: depth, Budget: budgetFromEnv(map[string]int{"quick": 8, "thorough": 60}[tier])}
	x.OnState = func(wk *Worker, n Node, ctx sdk.Context, _ any) {
		w := wk.W
		orbStore := w.StoreKeyOf(ctx, "orbiter")
		path := pathLabels(alpha, n.Path)
		for i := range use {
			p := use[i]
			a, b1, b2 := Branch(ctx), Branch(ctx), Branch(ctx)
			ra := RecvOn(w.Stack, a, p)
			rb := RecvOn(w.Ref, b1, p)
			rb2 := RecvOn(w.Ref, b2, p)
			rep.Count("probes", 1)
			sig := p.String()
			group := "pkt"
			if p.Raw != nil {
				group = "raw"
			}
			replay := mustJSON(map[string]any{"ops": append(n.Ops(alpha), Op{Label: "packet", Pkt: &p}), "note": "compare with the same packet on the orbiter-free stack"})
			if ra.Panic != "" || rb.Panic != "" {
				if ra.Panic != rb.Panic && !(ra.Panic != "" && rb.Panic != "") {
					rep.Violate(Violation{Kind: "panic-differs", Group: group, Sig: sig, Replay: replay, What: fmt.Sprintf("with middleware panic=%q, without panic=%q [%s] after %v", ra.Panic, rb.Panic, sig, path)})
				} else {
					rep.Outcome("both-panic(third-party)")
				}
				continue
			}
			if rb.Success {
				rep.Distinct(sig)
				rep.Outcome("reference-success")
			} else {
				rep.Outcome("reference-error-ack")
			}
			if !bytes.Equal(ra.Ack, rb.Ack) || ra.NilAck != rb.NilAck {
				rep.Violate(Violation{Kind: "ack-differs", Group: group, Sig: sig, Replay: replay,
					What: fmt.Sprintf("acknowledgement differs from the wrapped application's: with middleware %s, without %s [%s] after %v", trunc(string(ra.Ack), 220), trunc(string(rb.Ack), 220), sig, path)})
				continue
			}
			if ok, why := maskedEqual(ra.Events, rb.Events, rb.Events, rb2.Events); !ok {
				rep.Violate(Violation{Kind: "events-differ", Group: group, Sig: sig, Replay: replay, What: fmt.Sprintf("events differ from the wrapped application's: %s [%s] after %v", why, sig, path)})
				continue
			}
			if ra.Written || rb.Written {
				if ka, kb := w.StateKey(a), w.StateKey(b1); ka != kb {
					rep.Violate(Violation{Kind: "state-differs", Group: group, Sig: sig, Replay: replay, What: fmt.Sprintf("resulting stores differ: %v [%s] after %v", w.DiffStores(a, b1), sig, path)})
					continue
				}
				if w.StoreKeyOf(a, "orbiter") != orbStore {
					rep.Violate(Violation{Kind: "orbiter-state-touched", Group: group, Sig: sig, Replay: replay, What: "orbiter store changed by non-orbiter traffic: " + sig})
				}
			}
			rep.Count("traces_validated_against_impl", 1)
		}
		if len(n.Path) == 1 {
			rep.Sample(map[string]any{"state": path, "example_packet": use[(n.Path[0]*37)%len(use)].String()})
		}
	}
	x.RunOn(worlds)
	c07Callbacks(rep, w0, full)
	c07RefundPaths(rep, w0)
	rep.Guard(rep.Outcomes["reference-success"] > 50 && rep.Outcomes["reference-error-ack"] > 50, "outcome classes missing: %v", rep.Outcomes)
	rep.Guard(rep.Outcomes["callback-passthrough-ok"] >= 1000, "callback pass-through vacuous: %v", rep.Outcomes)
	return rep
}

// ---------------------------------------------------------------------------- other callbacks

// recorder shared by the two recording stand-ins: what they were called with, what they answer (mode 0: errors and
// "false"; mode 1: nil errors and "true"; mode 2: nil errors, empty strings), and an event emitted on the caller's context
type recState struct {
	calls []string
	mode  int
}

func (s *recState) note(ctx sdk.Context, name string, args ...any) {
	s.calls = append(s.calls, name+fmt.Sprint(args...))
	ctx.EventManager().EmitEvent(sdk.NewEvent("verif_rec", sdk.NewAttribute("call", name), sdk.NewAttribute("n", fmt.Sprint(len(s.calls)))))
}
func (s *recState) err(tag string) error {
	if s.mode == 0 {
		return fmt.Errorf("ret-err-%s", tag)
	}
	return nil
}
func (s *recState) str(tag string) string {
	if s.mode == 2 {
		return ""
	}
	return fmt.Sprintf("ret-%s-%d", tag, s.mode)
}

type recIBCModule struct{ s *recState }

func (r recIBCModule) OnChanOpenInit(ctx sdk.Context, order channeltypes.Order, hops []string, portID, channelID string, c *capabilitytypes.Capability, cp channeltypes.Counterparty, version string) (string, error) {
	r.s.note(ctx, "OnChanOpenInit", order, hops, portID, channelID, c, cp, version)
	return r.s.str("version-init"), r.s.err("init")
}
func (r recIBCModule) OnChanOpenTry(ctx sdk.Context, order channeltypes.Order, hops []string, portID, channelID string, c *capabilitytypes.Capability, cp channeltypes.Counterparty, cpVersion string) (string, error) {
	r.s.note(ctx, "OnChanOpenTry", order, hops, portID, channelID, c, cp, cpVersion)
	return r.s.str("version-try"), r.s.err("try")
}
func (r recIBCModule) OnChanOpenAck(ctx sdk.Context, portID, channelID, cpChannelID, cpVersion string) error {
	r.s.note(ctx, "OnChanOpenAck", portID, channelID, cpChannelID, cpVersion)
	return r.s.err("ack")
}
func (r recIBCModule) OnChanOpenConfirm(ctx sdk.Context, portID, channelID string) error {
	r.s.note(ctx, "OnChanOpenConfirm", portID, channelID)
	return r.s.err("confirm")
}
func (r recIBCModule) OnChanCloseInit(ctx sdk.Context, portID, channelID string) error {
	r.s.note(ctx, "OnChanCloseInit", portID, channelID)
	return r.s.err("closeinit")
}
func (r recIBCModule) OnChanCloseConfirm(ctx sdk.Context, portID, channelID string) error {
	r.s.note(ctx, "OnChanCloseConfirm", portID, channelID)
	return r.s.err("closeconfirm")
}
func (r recIBCModule) OnRecvPacket(ctx sdk.Context, p channeltypes.Packet, relayer sdk.AccAddress) ibcexported.Acknowledgement {
	r.s.note(ctx, "OnRecvPacket", p, relayer)
	switch r.s.mode {
	case 0:
		return channeltypes.NewErrorAcknowledgement(fmt.Errorf("ret-err-recv"))
	case 1:
		return channeltypes.NewResultAcknowledgement([]byte("ret-ack"))
	}
	return nil // asynchronous acknowledgement (what e.g. a packet-forwarding middleware below the orbiter answers)
}
func (r recIBCModule) OnAcknowledgementPacket(ctx sdk.Context, p channeltypes.Packet, ack []byte, relayer sdk.AccAddress) error {
	r.s.note(ctx, "OnAcknowledgementPacket", p, ack, relayer)
	return r.s.err("onack")
}
func (r recIBCModule) OnTimeoutPacket(ctx sdk.Context, p channeltypes.Packet, relayer sdk.AccAddress) error {
	r.s.note(ctx, "OnTimeoutPacket", p, relayer)
	return r.s.err("timeout")
}

type recICS4 struct{ s *recState }

func (r recICS4) SendPacket(ctx sdk.Context, chanCap *capabilitytypes.Capability, sourcePort, sourceChannel string, timeoutHeight clienttypes.Height, timeoutTimestamp uint64, data []byte) (uint64, error) {
	r.s.note(ctx, "SendPacket", chanCap, sourcePort, sourceChannel, timeoutHeight, timeoutTimestamp, data)
	return 4242 + uint64(r.s.mode), r.s.err("send")
}
func (r recICS4) WriteAcknowledgement(ctx sdk.Context, chanCap *capabilitytypes.Capability, packet ibcexported.PacketI, ack ibcexported.Acknowledgement) error {
	r.s.note(ctx, "WriteAcknowledgement", chanCap, packet, ack.Acknowledgement(), ack.Success())
	return r.s.err("writeack")
}
func (r recICS4) GetAppVersion(ctx sdk.Context, portID, channelID string) (string, bool) {
	r.s.note(ctx, "GetAppVersion", portID, channelID)
	return r.s.str("app-version"), r.s.mode != 0
}

// c07Callbacks: enumerate the method sets of porttypes.IBCModule and porttypes.ICS4Wrapper by reflection; for each
// method except OnRecvPacket, the FULL cross product of small per-type argument menus (packets addressed to the
// orbiter / to somebody else / sent by the orbiter account / undecodable / empty; result, error, undecodable and empty
// acknowledgements; port, channel and version strings; ...) times three answers of the wrapped application (error /
// success / success with empty strings) is called on the real middleware and on the recording stand-in directly.
// Required: the stand-in was called exactly once with exactly those arguments, the results come back unchanged, the
// events on the caller's context are exactly the stand-in's, and no store was written.
func c07Callbacks(rep *Report, w *World, full bool) {
	sa, sb := &recState{}, &recState{}
	mw := entrypoint.NewIBCMiddleware(recIBCModule{sa}, recICS4{sa}, w.App.OrbiterKeeper.Adapter())
	ifaces := []reflect.Type{reflect.TypeOf((*porttypes.IBCModule)(nil)).Elem(), reflect.TypeOf((*porttypes.ICS4Wrapper)(nil)).Elem()}
	direct := []reflect.Value{reflect.ValueOf(recIBCModule{sb}), reflect.ValueOf(recICS4{sb})}
	mwv := reflect.ValueOf(mw)
	base := Branch(w.Ctx)
	ctxT := reflect.TypeOf(base)
	mkPkt := func(data []byte, srcPort, srcCh, dstPort, dstCh string) channeltypes.Packet {
		return channeltypes.NewPacket(data, 3, srcPort, srcCh, dstPort, dstCh, clienttypes.NewHeight(1, 1000), 7)
	}
	ftpd := func(sender, receiver, memo string) []byte {
		return transfertypes.FungibleTokenPacketData{Denom: denomUSDC, Amount: "5", Sender: sender, Receiver: receiver, Memo: memo}.GetBytes()
	}
	orbMemo := Memo(w.FwdInternal(w.Bob), nil)
	pkts := []channeltypes.Packet{
		NewPkt("channel-0", denomUSDC, "5", w.Orb.String(), orbMemo).Packet(),                                   // incoming, orbiter-addressed
		mkPkt(ftpd(w.Alice.String(), defaultSender, ""), "transfer", "channel-0", "transfer", "channel-7"),         // sent by alice from Noble
		mkPkt(ftpd(w.Orb.String(), defaultSender, orbMemo), "transfer", "channel-0", "transfer", "channel-7"),    // sent by the orbiter account, orbiter memo
		mkPkt(ftpd(defaultSender, w.Orb.String(), orbMemo), "transfer", "channel-0", "transfer", "channel-7"),    // orbiter as receiver of an OUTGOING packet
		mkPkt([]byte("not json"), "transfer", "channel-1", "transfer", "channel-9"),
		mkPkt(nil, "icahost", "channel-3", "other", strings.Repeat("c", 40)),
	}
	if !full {
		pkts = pkts[:5]
	}
	acksB := [][]byte{channeltypes.NewResultAcknowledgement([]byte{1}).Acknowledgement(), channeltypes.NewErrorAcknowledgement(fmt.Errorf("boom")).Acknowledgement(), []byte("garbage"), {}, []byte(`{"result":"AQ==","error":"x"}`)}
	acksI := []ibcexported.Acknowledgement{channeltypes.NewResultAcknowledgement([]byte{1}), channeltypes.NewErrorAcknowledgement(fmt.Errorf("boom")), channeltypes.NewResultAcknowledgement(nil), channeltypes.Acknowledgement{}}
	strs := []string{"transfer", "", "channel-0", w.Orb.String(), "ics20-1"}
	if full {
		strs = append(strs, strings.Repeat("v", 200), "orbiter")
	}
	capb := capabilitytypes.NewCapability(7)
	menu := func(t reflect.Type) []reflect.Value {
		var out []reflect.Value
		add := func(vs ...any) {
			for _, v := range vs {
				out = append(out, reflect.ValueOf(v))
			}
		}
		switch {
		case t == reflect.TypeOf(pkts[0]):
			for _, p := range pkts {
				add(p)
			}
		case t == reflect.TypeOf((*ibcexported.PacketI)(nil)).Elem():
			for _, p := range pkts {
				out = append(out, reflect.ValueOf(p).Convert(t))
			}
		case t == reflect.TypeOf((*ibcexported.Acknowledgement)(nil)).Elem():
			for _, a := range acksI {
				out = append(out, reflect.ValueOf(a).Convert(t))
			}
		case t == reflect.TypeOf(capb):
			out = append(out, reflect.ValueOf(capb), reflect.Zero(t))
		case t == reflect.TypeOf(sdk.AccAddress{}):
			add(sdk.AccAddress(bytes.Repeat([]byte{9}, 20)), sdk.AccAddress(nil), w.Orb)
		case t == reflect.TypeOf(channeltypes.ORDERED):
			add(channeltypes.UNORDERED, channeltypes.ORDERED)
		case t == reflect.TypeOf(channeltypes.Counterparty{}):
			add(channeltypes.NewCounterparty("transfer", "channel-7"), channeltypes.NewCounterparty("", ""))
		case t == reflect.TypeOf(clienttypes.Height{}):
			add(clienttypes.NewHeight(0, 0), clienttypes.NewHeight(1, 99))
		case t.Kind() == reflect.String:
			for _, v := range strs {
				add(v)
			}
		case t.Kind() == reflect.Uint64:
			add(uint64(0), uint64(1000), ^uint64(0))
		case t.Kind() == reflect.Slice && t.Elem().Kind() == reflect.Uint8:
			for _, a := range acksB {
				add(a)
			}
			add(ftpd(w.Orb.String(), defaultSender, orbMemo), ftpd(defaultSender, w.Orb.String(), orbMemo))
		case t.Kind() == reflect.Slice && t.Elem().Kind() == reflect.String:
			add([]string{"connection-0"}, []string{})
		default:
			out = append(out, reflect.Zero(t))
		}
		return out
	}
	var covered []string
	sizes := map[string]int{}
	before := w.StateKey(base)
	for ii, it := range ifaces {
		for i := 0; i < it.NumMethod(); i++ {
			m := it.Method(i)
			if m.Name == "OnRecvPacket" {
				continue
			}
			covered = append(covered, m.Name)
			mm := mwv.MethodByName(m.Name)
			dm := direct[ii].MethodByName(m.Name)
			if !mm.IsValid() {
				rep.Violate(Violation{Kind: "callback-missing", Sig: m.Name, Replay: mustJSON(m.Name), What: "middleware does not expose " + m.Name})
				continue
			}
			var menus [][]reflect.Value
			total := 1
			for a := 0; a < m.Type.NumIn(); a++ {
				if m.Type.In(a) == ctxT {
					menus = append(menus, nil)
					continue
				}
				mn := menu(m.Type.In(a))
				menus = append(menus, mn)
				total *= len(mn)
			}
			sizes[m.Name] = total * 3
			idx := make([]int, len(menus))
			for n := 0; n < total; n++ {
				for mode := 0; mode < 3; mode++ {
					sa.mode, sb.mode = mode, mode
					ca, cb := base.WithEventManager(sdk.NewEventManager()), base.WithEventManager(sdk.NewEventManager())
					argsA, argsB := make([]reflect.Value, len(menus)), make([]reflect.Value, len(menus))
					for a := range menus {
						if menus[a] == nil {
							argsA[a], argsB[a] = reflect.ValueOf(ca), reflect.ValueOf(cb)
						} else {
							argsA[a], argsB[a] = menus[a][idx[a]], menus[a][idx[a]]
						}
					}
					sa.calls, sb.calls = sa.calls[:0], sb.calls[:0]
					ra := mm.Call(argsA)
					rb := dm.Call(argsB)
					rep.Count("evaluations", 1)
					why := ""
					if len(sa.calls) != 1 || len(sb.calls) != 1 || sa.calls[0] != sb.calls[0] {
						why = fmt.Sprintf("wrapped application saw %v, expected %v", sa.calls, sb.calls)
					}
					for k := range ra {
						if fmt.Sprintf("%#v", ra[k].Interface()) != fmt.Sprintf("%#v", rb[k].Interface()) && fmt.Sprint(ra[k].Interface()) != fmt.Sprint(rb[k].Interface()) {
							why += fmt.Sprintf(" result #%d is %v, the wrapped application returned %v;", k, ra[k].Interface(), rb[k].Interface())
						}
					}
					if ea, eb := fmt.Sprint(ca.EventManager().Events()), fmt.Sprint(cb.EventManager().Events()); ea != eb {
						why += fmt.Sprintf(" events %s, expected %s;", trunc(ea, 200), trunc(eb, 200))
					}
					if why != "" {
						var av []string
						for a := range menus {
							if menus[a] != nil {
								av = append(av, trunc(fmt.Sprint(argsA[a].Interface()), 80))
							}
						}
						rep.Violate(Violation{Kind: "callback-not-passed-through", Group: m.Name, Sig: fmt.Sprintf("%s#%d/mode%d", m.Name, n, mode), Replay: mustJSON(map[string]any{"callback": m.Name, "args": av, "inner_answer_mode": mode}),
							What: fmt.Sprintf("%s%v (wrapped application answering in mode %d) is not a pass-through: %s", m.Name, av, mode, why)})
					} else {
						rep.Outcome("callback-passthrough-ok")
						if n == 0 {
							rep.Distinct(fmt.Sprintf("callback:%s/mode%d", m.Name, mode))
						}
					}
				}
				for a := len(idx) - 1; a >= 0; a-- { // odometer
					if menus[a] == nil {
						continue
					}
					idx[a]++
					if idx[a] < len(menus[a]) {
						break
					}
					idx[a] = 0
				}
			}
			if after := w.StateKey(base); after != before {
				rep.Violate(Violation{Kind: "callback-writes-state", Group: m.Name, Sig: m.Name, Replay: mustJSON(m.Name), What: fmt.Sprintf("%s wrote to the stores although the wrapped application wrote nothing: %v", m.Name, w.DiffStores(base, Branch(w.Ctx)))})
				before = after
			}
		}
	}
	// OnRecvPacket for traffic that is NOT addressed to the orbiter, over a wrapped application that answers with an error
	// acknowledgement, a success acknowledgement or NO acknowledgement (asynchronous — seed C07i): the answer comes back as it is
	orbMemoV := Memo(w.FwdInternal(w.Bob), nil)
	foreign := []channeltypes.Packet{
		NewPkt("channel-0", denomUSDC, "5", w.Bob.String(), "").Packet(),
		NewPkt("channel-0", denomUSDC, "5", w.Bob.String(), orbMemoV).Packet(),
		NewPkt("channel-1", "uatom", "7", w.Dust.String(), "").Packet(),
		mkPkt([]byte("not json"), "transfer", "channel-9", "transfer", "channel-1"),
		mkPkt([]byte(`{"receiver":"`+w.Orb.String()+`"`), "transfer", "channel-7", "transfer", "channel-0"),
		mkPkt(ftpd(defaultSender, "", ""), "transfer", "channel-7", "transfer", "channel-0"),
	}
	for pi, pk := range foreign {
		for _, rel := range []sdk.AccAddress{nil, sdk.AccAddress(bytes.Repeat([]byte{9}, 20)), w.Orb} {
			for mode := 0; mode < 3; mode++ {
				sa.mode, sb.mode = mode, mode
				sa.calls, sb.calls = sa.calls[:0], sb.calls[:0]
				ca, cb := base.WithEventManager(sdk.NewEventManager()), base.WithEventManager(sdk.NewEventManager())
				var ga, gb ibcexported.Acknowledgement
				pan := ""
				func() {
					defer func() {
						if r := recover(); r != nil {
							pan = trunc(fmt.Sprint(r), 160)
						}
					}()
					ga = mw.OnRecvPacket(ca, pk, rel)
				}()
				gb = recIBCModule{sb}.OnRecvPacket(cb, pk, rel)
				rep.Count("evaluations", 1)
				why := ""
				switch {
				case pan != "":
					why = "the middleware panicked: " + pan
				case (ga == nil) != (gb == nil):
					why = fmt.Sprintf("acknowledgement %v, the wrapped application answered %v", ga, gb)
				case ga != nil && !bytes.Equal(ga.Acknowledgement(), gb.Acknowledgement()):
					why = fmt.Sprintf("acknowledgement %s, the wrapped application answered %s", ga.Acknowledgement(), gb.Acknowledgement())
				case len(sa.calls) != 1 || sa.calls[0] != sb.calls[0]:
					why = fmt.Sprintf("wrapped application saw %v, expected %v", sa.calls, sb.calls)
				case fmt.Sprint(ca.EventManager().Events()) != fmt.Sprint(cb.EventManager().Events()):
					why = "events differ from the wrapped application's"
				}
				if why != "" {
					rep.Violate(Violation{Kind: "callback-not-passed-through", Group: "OnRecvPacket(foreign)", Sig: fmt.Sprintf("OnRecvPacket foreign#%d mode%d relayer=%v", pi, mode, rel),
						Replay: mustJSON(map[string]any{"callback": "OnRecvPacket", "packet_data": string(pk.Data), "inner_answer_mode": mode}),
						What:   fmt.Sprintf("OnRecvPacket for a packet not addressed to the orbiter (data %s), wrapped application answering in mode %d (0 error ack, 1 success ack, 2 none): %s", trunc(string(pk.Data), 100), mode, why)})
				} else {
					rep.Outcome("callback-passthrough-ok")
					rep.Distinct(fmt.Sprintf("callback:OnRecvPacket(foreign#%d)/mode%d", pi, mode))
				}
			}
		}
	}
	if after := w.StateKey(base); after != before {
		rep.Violate(Violation{Kind: "callback-writes-state", Group: "OnRecvPacket(foreign)", Sig: "OnRecvPacket(foreign)", Replay: mustJSON("OnRecvPacket"), What: "OnRecvPacket for foreign traffic wrote to the stores although the wrapped application wrote nothing"})
	}
	rep.Extra["callbacks_enumerated_by_reflection"] = covered
	rep.Extra["callback_argument_combinations"] = sizes
}

// c07RefundPaths: acknowledgement / timeout of packets SENT by Noble, on the full stack vs the reference stack.
func c07RefundPaths(rep *Report, w *World) {
	type coin struct{ denom, amount string }
	coins := []coin{{denomUSDC, "123"}, {denomUSDC, "0"}, {"transfer/channel-0/uatom", "7"}, {"uother", "1"}, {"!bad", "1"}, {denomUSDC, "340282366920938463463374607431768211456"}}
	senders := []string{w.Alice.String(), w.Orb.String(), w.Bob.String(), strings.ToUpper(w.Orb.String()), "not-an-address"}
	memos := []string{"", Memo(w.FwdInternal(w.Bob), nil), "{\"orbiter\":"}
	acks := [][]byte{channeltypes.NewResultAcknowledgement([]byte{1}).Acknowledgement(), channeltypes.NewErrorAcknowledgement(fmt.Errorf("boom")).Acknowledgement(), []byte("garbage")}
	for _, ch := range []string{"channel-0", "channel-1"} {
		for _, c := range coins {
			for _, sender := range senders {
				for _, memo := range memos {
					data := transfertypes.FungibleTokenPacketData{Denom: c.denom, Amount: c.amount, Sender: sender, Receiver: defaultSender, Memo: memo}
					pkt := channeltypes.NewPacket(data.GetBytes(), 1, "transfer", ch, "transfer", "channel-7", clienttypes.NewHeight(1, 1000), 0)
					for ai := 0; ai <= len(acks); ai++ {
						a, b := Branch(w.Ctx), Branch(w.Ctx)
						name := "OnTimeoutPacket"
						call := func(m porttypes.IBCModule, ctx sdk.Context) (err error, pan string) {
							defer func() {
								if r := recover(); r != nil {
									pan = trunc(fmt.Sprint(r), 120)
								}
							}()
							if ai < len(acks) {
								return m.OnAcknowledgementPacket(ctx, pkt, acks[ai], nil), ""
							}
							return m.OnTimeoutPacket(ctx, pkt, nil), ""
						}
						if ai < len(acks) {
							name = fmt.Sprintf("OnAcknowledgementPacket(ack#%d)", ai)
						}
						ea, pa := call(w.Stack, a)
						eb, pb := call(w.Ref, b)
						rep.Count("evaluations", 1)
						sig := fmt.Sprintf("%s %s sender=%s coin=%s%s memo=%d", name, ch, w.roleOf(sender), c.amount, c.denom, len(memo))
						evOK, why := maskedEqual(convEvents(a.EventManager().Events()), convEvents(b.EventManager().Events()), nil, nil)
						if fmt.Sprint(ea) != fmt.Sprint(eb) || (pa != "") != (pb != "") || w.StateKey(a) != w.StateKey(b) || !evOK {
							rep.Violate(Violation{Kind: "refund-path-differs", Sig: sig, Replay: mustJSON(sig), What: fmt.Sprintf("%s differs from the wrapped application: err %v vs %v; panic %q vs %q; %s; stores %v", sig, ea, eb, pa, pb, why, w.DiffStores(a, b))})
						} else {
							rep.Outcome("refund-path-identical")
							if eb == nil && pb == "" {
								rep.Outcome("refund-path-identical(executed)")
							}
							rep.Distinct("refund:" + sig)
						}
					}
				}
			}
		}
	}
}
