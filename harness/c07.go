package simapp

// C07 — traffic not addressed to the orbiter is handled as if the middleware were absent.
// E4 differential over E1 states: every packet is delivered, from the same state, to the application's own
// stack (blockibc -> orbiter -> transfer) and to a reference stack assembled from the same keepers without
// the orbiter middleware (blockibc -> transfer); acks, events and resulting stores must be identical.
// Other callbacks: every method of the middleware except OnRecvPacket is invoked by reflection on a
// middleware built around recording inner implementations.

import (
	"bytes"
	"fmt"
	"reflect"
	"strings"

	sdk "github.com/cosmos/cosmos-sdk/types"
	capabilitytypes "github.com/cosmos/ibc-go/modules/capability/types"
	transfertypes "github.com/cosmos/ibc-go/v8/modules/apps/transfer/types"
	clienttypes "github.com/cosmos/ibc-go/v8/modules/core/02-client/types"
	channeltypes "github.com/cosmos/ibc-go/v8/modules/core/04-channel/types"
	porttypes "github.com/cosmos/ibc-go/v8/modules/core/05-port/types"
	ibcexported "github.com/cosmos/ibc-go/v8/modules/core/exported"

	"github.com/noble-assets/orbiter/v2/entrypoint"
)

func (w *World) c07Packets(full bool) []Pkt {
	var out []Pkt
	orb := w.Orb.String()
	validMemo := Memo(w.FwdInternal(w.Bob), []FeeSpec{{To: w.Fee1.String(), Bps: 100}})
	rcvs := []string{w.Bob.String(), strings.ToUpper(w.Bob.String()), w.Dust.String(), moduleAddr("cctp").String(), moduleAddr("transfer").String(),
		"noble1invalid", "", w.Carol.String(), encodingsOf(w.Orb)[2].S /* mixed case: does not decode */, encodingsOf(w.Orb)[3].S, /* bad checksum */
		encodingsOf(w.Orb)[5].S /* other HRP */, " " + orb}
	memos := []string{"", `{"foo":1}`, validMemo, MemoJSON(w.FwdCCTP(0)), `{"orbiter":{}}`, `{"orbiter":`, "not json", `{"orbiter":{"forwarding":null},"x":1}`}
	type coin struct{ denom, amt string }
	coins := []coin{{"transfer/channel-7/uusdc", "1000"}, {"transfer/channel-7/uother", "5"}, {"uatom", "1000"}, {"transfer/channel-7/transfer/channel-3/uatom", "7"},
		{"transfer/channel-7/uusdc", "0"}, {"transfer/channel-7/uusdc", "-5"}, {"transfer/channel-7/uusdc", "0x10"}, {"transfer/channel-7/uusdc", ""},
		{"", "1"}, {"transfer/channel-7/", "1"}, {"ibc/27394FB092D2ECCD56123C74F36E4C1F926001CEADA9CA97EA622B25F41E5EB2", "3"}, {"transfer/channel-7/uusdc", maxUint256Str}}
	type chans struct{ sp, sc, dp, dc string }
	chs := []chans{{"transfer", "channel-7", "transfer", "channel-0"}, {"transfer", "channel-9", "transfer", "channel-1"},
		{"transfer", "channel-noble", "transfer", "channel-0"}, {"transfer", "chan.to_noble+01", "transfer", "channel-0"},
		{"transfer", "channel-18446744073709551616", "transfer", "channel-0"}, {"transfer", "channel-7", "transfer", "channel-18446744073709551615"},
		{"icahost", "channel-7", "transfer", "channel-0"}, {"transfer", "channel-7", "transfer", "channel-5"},
		// our own end under identifiers ICS-24 accepts (up to 64 characters) but ibc-go never generates: leading zeros, longer
		// than the 32 characters orbiter allows for a counterparty identifier (only a hand-written genesis can create them)
		{"transfer", "channel-7", "transfer", "channel-0000000000000000000000000001"}, {"transfer", "channel-7", "transfer", "channel-007"}}
	mk := func(c chans, co coin, rcv, memo, sender string) Pkt {
		return Pkt{SrcPort: c.sp, SrcChan: c.sc, DstPort: c.dp, DstChan: c.dc, Denom: co.denom, Amount: co.amt, Sender: sender, Receiver: rcv, Memo: memo}
	}
	// (1) receivers × memos × coins on the main channel pair
	for _, r := range rcvs {
		for _, m := range memos {
			for ci, co := range coins {
				if !full && ci >= 4 && !(r == w.Bob.String()) {
					continue
				}
				p := mk(chs[0], co, r, m, defaultSender)
				if co.denom != "" && strings.HasPrefix(co.denom, "transfer/channel-7/") {
					// keep the voucher prefix consistent with the source channel
				}
				out = append(out, p)
			}
		}
	}
	// (2) channel identifiers (incl. ICS-24-valid source channels that are not of the form channel-N)
	for _, c := range chs[1:] {
		for _, r := range []string{w.Bob.String(), "noble1invalid"} {
			for _, m := range []string{"", validMemo} {
				for _, co := range []coin{{"transfer/" + c.sc + "/uusdc", "1000"}, {c.sp + "/" + c.sc + "/uusdc", "1000"}, {"uatom", "9"}} {
					out = append(out, mk(c, co, r, m, defaultSender))
				}
			}
		}
	}
	// (3) senders (blockibc decodes them for the minting denom)
	for _, s := range []string{"", "notbech32", w.Bob.String(), orb} {
		out = append(out, mk(chs[0], coins[0], w.Bob.String(), "", s), mk(chs[0], coins[0], w.Bob.String(), validMemo, s))
	}
	// (4) raw data: not ICS-20 at all, or ICS-20 JSON with structural damage — including receiver = orbiter account
	raws := []string{"", " ", "null", "{}", "[]", `"x"`, "0", `{"denom":1}`, `{"receiver":"` + orb + `"}`,
		`{"denom":"transfer/channel-7/uusdc","amount":"10","sender":"` + defaultSender + `","receiver":"` + orb + `","memo":"","extra":1}`,
		`{"denom":"transfer/channel-7/uusdc","amount":10,"sender":"` + defaultSender + `","receiver":"` + orb + `"}`,
		`{"denom":"transfer/channel-7/uusdc","amount":"10","sender":"` + defaultSender + `","receiver":"` + orb + `","memo":{}}`,
		`{"denom":"transfer/channel-7/uusdc","amount":"10","sender":"` + defaultSender + `","receiver":"` + orb + `"`,
		`{"denom":"transfer/channel-7/uusdc","amount":"10","sender":"` + defaultSender + `","receiver":["` + orb + `"]}`,
		`{"denom":"transfer/channel-7/uusdc","amount":"10","sender":"` + defaultSender + `","receiver":null,"memo":"x"}`,
		`{"denom":"transfer/channel-7/uusdc","amount":"10","sender":"` + defaultSender + `","receiver":"` + w.Bob.String() + `","receiver":"` + w.Carol.String() + `"}`,
		"\x0a\x05uusdc\x12\x0210", "\xff\xfe", strings.Repeat("{", 200)}
	alphabet := []byte(`{}[]":,a1 ` + "\x00")
	raws = append(raws, string(alphabet[:1]))
	for _, a := range alphabet {
		raws = append(raws, string([]byte{a}))
		for _, b := range alphabet {
			raws = append(raws, string([]byte{a, b}))
		}
	}
	if full {
		for _, a := range alphabet {
			for _, b := range alphabet {
				for _, c := range alphabet {
					raws = append(raws, string([]byte{a, b, c}))
				}
			}
		}
	}
	for _, r := range raws {
		out = append(out, Pkt{SrcPort: "transfer", SrcChan: "channel-7", DstPort: "transfer", DstChan: "channel-0", Raw: []byte(r)})
	}
	// (5) size ladder: nothing in the property lets the middleware treat large foreign packets differently (ICS-20 bounds
	// the memo at 32768 and the receiver at 2048 bytes when SENDING; the receiving side has no bound of its own)
	for _, L := range []int{255, 256, 1024, 2047, 2048, 2049, 4096, 8192, 16384, 32767, 32768, 32769, 65535, 65536, 65537, 131072, 262144} {
		long := strings.Repeat("a", L)
		out = append(out,
			mk(chs[0], coins[0], w.Bob.String(), long, defaultSender),                          // plain text memo of length L
			mk(chs[0], coins[0], w.Bob.String(), `{"note":"`+long+`"}`, defaultSender),          // JSON memo of length L+11
			mk(chs[0], coins[0], w.Bob.String(), `{"orbiter":"`+long+`"}`, defaultSender),       // orbiter-keyed memo, foreign receiver
			mk(chs[0], coins[0], w.Bob.String()+long, "", defaultSender),                       // receiver of length > L
			mk(chs[0], coin{"transfer/channel-7/" + long, "1"}, w.Bob.String(), "", defaultSender), // long base denom
			Pkt{SrcPort: "transfer", SrcChan: "channel-7", DstPort: "transfer", DstChan: "channel-0", Raw: []byte(long)},
			Pkt{SrcPort: "transfer", SrcChan: "channel-7", DstPort: "transfer", DstChan: "channel-0", Raw: []byte(`{"denom":"` + long + `"}`)})
	}
	// protobuf-encoded ICS-20 data
	pb := transfertypes.FungibleTokenPacketData{Denom: "transfer/channel-7/uusdc", Amount: "10", Sender: defaultSender, Receiver: w.Bob.String()}
	if bz, err := pb.Marshal(); err == nil {
		out = append(out, Pkt{SrcPort: "transfer", SrcChan: "channel-7", DstPort: "transfer", DstChan: "channel-0", Raw: bz})
	}
	return out
}

// isOrbiterTransfer: the packets C07 does NOT speak about — ICS-20 transfers whose receiver decodes to the orbiter account.
func (w *World) isOrbiterTransfer(p Pkt) bool {
	var d transfertypes.FungibleTokenPacketData
	if err := transfertypes.ModuleCdc.UnmarshalJSON(p.Data(), &d); err != nil {
		return false
	}
	return decodesTo(d.Receiver, w.Orb)
}

func maskedEqual(a, b, ref1, ref2 []Event) (bool, string) {
	if len(a) != len(b) {
		return false, fmt.Sprintf("%d events vs %d", len(a), len(b))
	}
	for i := range a {
		if a[i].Type != b[i].Type || len(a[i].Attrs) != len(b[i].Attrs) {
			return false, fmt.Sprintf("event #%d: %s(%d attrs) vs %s(%d attrs)", i, a[i].Type, len(a[i].Attrs), b[i].Type, len(b[i].Attrs))
		}
		for j := range a[i].Attrs {
			if a[i].Attrs[j] != b[i].Attrs[j] {
				// third-party noise: the reference stack itself does not reproduce this attribute across two runs
				if i < len(ref1) && i < len(ref2) && j < len(ref1[i].Attrs) && j < len(ref2[i].Attrs) && ref1[i].Attrs[j] != ref2[i].Attrs[j] {
					continue
				}
				return false, fmt.Sprintf("event #%d %s attr %s: %q vs %q", i, a[i].Type, a[i].Attrs[j][0], trunc(a[i].Attrs[j][1], 120), trunc(b[i].Attrs[j][1], 120))
			}
		}
	}
	return true, ""
}

func init() { register("C07", checkC07) }

func checkC07(tier string) *Report {
	rep := NewReport("C07", tier, "model_checking")
	full := tier == "thorough"
	rep.Rule = "every state reachable by <=D operations of an orbiter-state alphabet (pauses, parameter change, deposits, transfers, token-factory toggles) × every packet of the menu (receivers × memos × coins; channel identifiers; senders; raw byte strings up to length 2 (thorough 3) over 11 symbols; structurally damaged ICS-20 JSON), delivered to the app's stack and to the orbiter-free reference stack on two branches; non-trivial = the reference stack acknowledged with success (state changed)"
	rep.Assumptions = []string{
		"reference stack = blockibc -> transfer assembled by the harness from the application's own keepers (what simapp/ibc.go wires minus the orbiter middleware)",
		"event attributes on which two runs of the REFERENCE stack disagree are third-party noise (ibc-go v8.6.1 prints a pointer for non-positive amounts) and are masked; acks and stores are never masked",
		"IBC core discard-on-error emulated (DESIGN §1.3.1)",
	}
	worlds, err := buildWorlds(numWorkers())
	if err != nil {
		rep.HarnessError("fixture: %v", err)
		return rep
	}
	w0 := worlds[0]
	alpha := []Op{w0.OpPauseProtocol("PROTOCOL_IBC"), w0.OpPauseProtocol("PROTOCOL_INTERNAL"), w0.OpPauseCC("PROTOCOL_IBC", "channel-0"), w0.OpPauseAction("ACTION_FEE"),
		w0.OpUpdateParams(8), w0.OpDeposit(w0.Orb, denomUSDC, 5),
		w0.OpRecv("T(internal,fee)", TransferSpec{"channel-0", denomUSDC, "10000", w0.Orb.String(), w0.FwdInternal(w0.Bob), []FeeSpec{{To: w0.Fee1.String(), Bps: 100}}}.Pkt()),
		OpEnv("ftf-pause"), OpEnv("ftf-blacklist-bob")}
	depth := 2
	if full {
		depth = 3
	}
	pkts := w0.c07Packets(full)
	var use []Pkt
	skipped := 0
	for _, p := range pkts {
		if w0.isOrbiterTransfer(p) {
			skipped++
			continue
		}
		use = append(use, p)
	}
	rep.Extra["packets"] = len(use)
	rep.Extra["packets_skipped_because_orbiter_addressed"] = skipped
	x := &Explorer{Rep: rep, Prefix: alpha, Depth: depth, Budget: budgetFromEnv(map[string]int{"quick": 8, "thorough": 60}[tier])}
	x.OnState = func(wk *Worker, n Node, ctx sdk.Context, _ any) {
		w := wk.W
		orbStore := w.StoreKeyOf(ctx, "orbiter")
		path := pathLabels(alpha, n.Path)
		for i := range use {
			p := use[i]
			a, b1, b2 := Branch(ctx), Branch(ctx), Branch(ctx)
			ra := RecvOn(w.Stack, a, p)
			rb := RecvOn(w.Ref, b1, p)
			rb2 := RecvOn(w.Ref, b2, p)
			rep.Count("probes", 1)
			sig := p.String()
			group := "pkt"
			if p.Raw != nil {
				group = "raw"
			}
			replay := mustJSON(map[string]any{"ops": append(n.Ops(alpha), Op{Label: "packet", Pkt: &p}), "note": "compare with the same packet on the orbiter-free stack"})
			if ra.Panic != "" || rb.Panic != "" {
				if ra.Panic != rb.Panic && !(ra.Panic != "" && rb.Panic != "") {
					rep.Violate(Violation{Kind: "panic-differs", Group: group, Sig: sig, Replay: replay, What: fmt.Sprintf("with middleware panic=%q, without panic=%q [%s] after %v", ra.Panic, rb.Panic, sig, path)})
				} else {
					rep.Outcome("both-panic(third-party)")
				}
				continue
			}
			if rb.Success {
				rep.Distinct(sig)
				rep.Outcome("reference-success")
			} else {
				rep.Outcome("reference-error-ack")
			}
			if !bytes.Equal(ra.Ack, rb.Ack) || ra.NilAck != rb.NilAck {
				rep.Violate(Violation{Kind: "ack-differs", Group: group, Sig: sig, Replay: replay,
					What: fmt.Sprintf("acknowledgement differs from the wrapped application's: with middleware %s, without %s [%s] after %v", trunc(string(ra.Ack), 220), trunc(string(rb.Ack), 220), sig, path)})
				continue
			}
			if ok, why := maskedEqual(ra.Events, rb.Events, rb.Events, rb2.Events); !ok {
				rep.Violate(Violation{Kind: "events-differ", Group: group, Sig: sig, Replay: replay, What: fmt.Sprintf("events differ from the wrapped application's: %s [%s] after %v", why, sig, path)})
				continue
			}
			if ra.Written || rb.Written {
				if ka, kb := w.StateKey(a), w.StateKey(b1); ka != kb {
					rep.Violate(Violation{Kind: "state-differs", Group: group, Sig: sig, Replay: replay, What: fmt.Sprintf("resulting stores differ: %v [%s] after %v", w.DiffStores(a, b1), sig, path)})
					continue
				}
				if w.StoreKeyOf(a, "orbiter") != orbStore {
					rep.Violate(Violation{Kind: "orbiter-state-touched", Group: group, Sig: sig, Replay: replay, What: "orbiter store changed by non-orbiter traffic: " + sig})
				}
			}
			rep.Count("traces_validated_against_impl", 1)
		}
		if len(n.Path) == 1 {
			rep.Sample(map[string]any{"state": path, "example_packet": use[(n.Path[0]*37)%len(use)].String()})
		}
	}
	x.RunOn(worlds)
	c07Callbacks(rep, w0)
	c07RefundPaths(rep, w0)
	rep.Guard(rep.Outcomes["reference-success"] > 50 && rep.Outcomes["reference-error-ack"] > 50, "outcome classes missing: %v", rep.Outcomes)
	rep.Guard(rep.Outcomes["callback-passthrough-ok"] >= 11, "callback pass-through vacuous: %v", rep.Outcomes)
	return rep
}

// ---------------------------------------------------------------------------- other callbacks

type recIBCModule struct{ calls *[]string }

func (r recIBCModule) note(name string, args ...any) { *r.calls = append(*r.calls, name+fmt.Sprint(args...)) }

func (r recIBCModule) OnChanOpenInit(ctx sdk.Context, order channeltypes.Order, hops []string, portID, channelID string, c *capabilitytypes.Capability, cp channeltypes.Counterparty, version string) (string, error) {
	r.note("OnChanOpenInit", order, hops, portID, channelID, c, cp, version)
	return "ret-version-init", fmt.Errorf("ret-err-init")
}
func (r recIBCModule) OnChanOpenTry(ctx sdk.Context, order channeltypes.Order, hops []string, portID, channelID string, c *capabilitytypes.Capability, cp channeltypes.Counterparty, cpVersion string) (string, error) {
	r.note("OnChanOpenTry", order, hops, portID, channelID, c, cp, cpVersion)
	return "ret-version-try", fmt.Errorf("ret-err-try")
}
func (r recIBCModule) OnChanOpenAck(ctx sdk.Context, portID, channelID, cpChannelID, cpVersion string) error {
	r.note("OnChanOpenAck", portID, channelID, cpChannelID, cpVersion)
	return fmt.Errorf("ret-err-ack")
}
func (r recIBCModule) OnChanOpenConfirm(ctx sdk.Context, portID, channelID string) error {
	r.note("OnChanOpenConfirm", portID, channelID)
	return fmt.Errorf("ret-err-confirm")
}
func (r recIBCModule) OnChanCloseInit(ctx sdk.Context, portID, channelID string) error {
	r.note("OnChanCloseInit", portID, channelID)
	return fmt.Errorf("ret-err-closeinit")
}
func (r recIBCModule) OnChanCloseConfirm(ctx sdk.Context, portID, channelID string) error {
	r.note("OnChanCloseConfirm", portID, channelID)
	return fmt.Errorf("ret-err-closeconfirm")
}
func (r recIBCModule) OnRecvPacket(ctx sdk.Context, p channeltypes.Packet, relayer sdk.AccAddress) ibcexported.Acknowledgement {
	r.note("OnRecvPacket", p, relayer)
	return channeltypes.NewResultAcknowledgement([]byte("ret-ack"))
}
func (r recIBCModule) OnAcknowledgementPacket(ctx sdk.Context, p channeltypes.Packet, ack []byte, relayer sdk.AccAddress) error {
	r.note("OnAcknowledgementPacket", p, ack, relayer)
	return fmt.Errorf("ret-err-onack")
}
func (r recIBCModule) OnTimeoutPacket(ctx sdk.Context, p channeltypes.Packet, relayer sdk.AccAddress) error {
	r.note("OnTimeoutPacket", p, relayer)
	return fmt.Errorf("ret-err-timeout")
}

type recICS4 struct{ calls *[]string }

func (r recICS4) SendPacket(ctx sdk.Context, chanCap *capabilitytypes.Capability, sourcePort, sourceChannel string, timeoutHeight clienttypes.Height, timeoutTimestamp uint64, data []byte) (uint64, error) {
	*r.calls = append(*r.calls, "SendPacket"+fmt.Sprint(chanCap, sourcePort, sourceChannel, timeoutHeight, timeoutTimestamp, data))
	return 4242, fmt.Errorf("ret-err-send")
}
func (r recICS4) WriteAcknowledgement(ctx sdk.Context, chanCap *capabilitytypes.Capability, packet ibcexported.PacketI, ack ibcexported.Acknowledgement) error {
	*r.calls = append(*r.calls, "WriteAcknowledgement"+fmt.Sprint(chanCap, packet, ack))
	return fmt.Errorf("ret-err-writeack")
}
func (r recICS4) GetAppVersion(ctx sdk.Context, portID, channelID string) (string, bool) {
	*r.calls = append(*r.calls, "GetAppVersion"+fmt.Sprint(portID, channelID))
	return "ret-app-version", true
}

// c07Callbacks: enumerate the method sets of porttypes.IBCModule and porttypes.ICS4Wrapper by reflection;
// call each (except OnRecvPacket) on the real middleware and on the recording inner directly with the
// same arguments; the inner must have been called exactly once with exactly those arguments and the
// results must be returned unchanged.
func c07Callbacks(rep *Report, w *World) {
	var got, want []string
	innerA, ics4A := recIBCModule{&got}, recICS4{&got}
	innerB, ics4B := recIBCModule{&want}, recICS4{&want}
	mw := entrypoint.NewIBCMiddleware(innerA, ics4A, w.App.OrbiterKeeper.Adapter())
	ifaces := []reflect.Type{reflect.TypeOf((*porttypes.IBCModule)(nil)).Elem(), reflect.TypeOf((*porttypes.ICS4Wrapper)(nil)).Elem()}
	direct := []reflect.Value{reflect.ValueOf(innerB), reflect.ValueOf(ics4B)}
	mwv := reflect.ValueOf(mw)
	ctx := Branch(w.Ctx)
	pkt := NewPkt("channel-0", denomUSDC, "5", w.Orb.String(), Memo(w.FwdInternal(w.Bob), nil)).Packet()
	capb := capabilitytypes.NewCapability(7)
	argFor := func(t reflect.Type, pos int, variant int) reflect.Value {
		switch {
		case t == reflect.TypeOf(ctx):
			return reflect.ValueOf(ctx)
		case t == reflect.TypeOf(pkt):
			return reflect.ValueOf(pkt)
		case t == reflect.TypeOf((*ibcexported.PacketI)(nil)).Elem():
			return reflect.ValueOf(pkt)
		case t == reflect.TypeOf((*ibcexported.Acknowledgement)(nil)).Elem():
			return reflect.ValueOf(channeltypes.NewResultAcknowledgement([]byte{byte(variant)}))
		case t == reflect.TypeOf(capb):
			return reflect.ValueOf(capb)
		case t == reflect.TypeOf(sdk.AccAddress{}):
			return reflect.ValueOf(sdk.AccAddress(bytes.Repeat([]byte{byte(pos + variant)}, 20)))
		case t == reflect.TypeOf(channeltypes.ORDERED):
			return reflect.ValueOf(channeltypes.Order(1 + variant%2))
		case t == reflect.TypeOf(channeltypes.Counterparty{}):
			return reflect.ValueOf(channeltypes.NewCounterparty("transfer", fmt.Sprintf("channel-%d", variant)))
		case t == reflect.TypeOf(clienttypes.Height{}):
			return reflect.ValueOf(clienttypes.NewHeight(uint64(variant), 99))
		case t.Kind() == reflect.String:
			vals := []string{"transfer", "", fmt.Sprintf("arg%d-%d", pos, variant), w.Orb.String()}
			return reflect.ValueOf(vals[(pos+variant)%len(vals)])
		case t.Kind() == reflect.Uint64:
			return reflect.ValueOf(uint64(1000 + variant))
		case t.Kind() == reflect.Slice && t.Elem().Kind() == reflect.Uint8:
			return reflect.ValueOf([]byte(fmt.Sprintf(`{"receiver":"%s","v":%d}`, w.Orb.String(), variant)))
		case t.Kind() == reflect.Slice && t.Elem().Kind() == reflect.String:
			return reflect.ValueOf([]string{"connection-0", fmt.Sprint(variant)})
		}
		return reflect.Zero(t)
	}
	var covered []string
	for ii, it := range ifaces {
		for i := 0; i < it.NumMethod(); i++ {
			m := it.Method(i)
			if m.Name == "OnRecvPacket" {
				continue
			}
			covered = append(covered, m.Name)
			mm := mwv.MethodByName(m.Name)
			dm := direct[ii].MethodByName(m.Name)
			if !mm.IsValid() {
				rep.Violate(Violation{Kind: "callback-missing", Sig: m.Name, Replay: mustJSON(m.Name), What: "middleware does not expose " + m.Name})
				continue
			}
			for variant := 0; variant < 4; variant++ {
				var args []reflect.Value
				for a := 0; a < m.Type.NumIn(); a++ {
					args = append(args, argFor(m.Type.In(a), a, variant))
				}
				got, want = got[:0], want[:0]
				ra := mm.Call(args)
				rb := dm.Call(args)
				rep.Count("evaluations", 1)
				same := len(got) == 1 && len(want) == 1 && got[0] == want[0]
				for k := range ra {
					if fmt.Sprint(ra[k].Interface()) != fmt.Sprint(rb[k].Interface()) {
						same = false
					}
				}
				if !same {
					rep.Violate(Violation{Kind: "callback-not-passed-through", Group: m.Name, Sig: fmt.Sprintf("%s#%d", m.Name, variant), Replay: mustJSON(m.Name),
						What: fmt.Sprintf("%s is not a pass-through: inner saw %v, expected %v", m.Name, got, want)})
				} else if variant == 0 {
					rep.Outcome("callback-passthrough-ok")
					rep.Distinct("callback:" + m.Name)
				}
			}
		}
	}
	rep.Extra["callbacks_enumerated_by_reflection"] = covered
}

// c07RefundPaths: acknowledgement / timeout of packets SENT by Noble, on the full stack vs the reference stack.
func c07RefundPaths(rep *Report, w *World) {
	for _, sender := range []sdk.AccAddress{w.Alice, w.Orb, w.Bob} {
		for _, memo := range []string{"", Memo(w.FwdInternal(w.Bob), nil)} {
			data := transfertypes.FungibleTokenPacketData{Denom: denomUSDC, Amount: "123", Sender: sender.String(), Receiver: defaultSender, Memo: memo}
			pkt := channeltypes.NewPacket(data.GetBytes(), 1, "transfer", "channel-0", "transfer", "channel-7", clienttypes.NewHeight(1, 1000), 0)
			acks := [][]byte{channeltypes.NewResultAcknowledgement([]byte{1}).Acknowledgement(), channeltypes.NewErrorAcknowledgement(fmt.Errorf("boom")).Acknowledgement(), []byte("garbage")}
			for ai := 0; ai <= len(acks); ai++ {
				a, b := Branch(w.Ctx), Branch(w.Ctx)
				var ea, eb error
				name := "OnTimeoutPacket"
				if ai < len(acks) {
					name = fmt.Sprintf("OnAcknowledgementPacket(ack#%d)", ai)
					ea = w.Stack.OnAcknowledgementPacket(a, pkt, acks[ai], nil)
					eb = w.Ref.OnAcknowledgementPacket(b, pkt, acks[ai], nil)
				} else {
					ea = w.Stack.OnTimeoutPacket(a, pkt, nil)
					eb = w.Ref.OnTimeoutPacket(b, pkt, nil)
				}
				rep.Count("evaluations", 1)
				sig := fmt.Sprintf("%s sender=%s memo=%v", name, w.roleOf(sender.String()), memo != "")
				evOK, why := maskedEqual(convEvents(a.EventManager().Events()), convEvents(b.EventManager().Events()), nil, nil)
				if fmt.Sprint(ea) != fmt.Sprint(eb) || w.StateKey(a) != w.StateKey(b) || !evOK {
					rep.Violate(Violation{Kind: "refund-path-differs", Sig: sig, Replay: mustJSON(sig), What: fmt.Sprintf("%s differs from the wrapped application: err %v vs %v; %s; stores %v", sig, ea, eb, why, w.DiffStores(a, b))})
				} else {
					rep.Outcome("refund-path-identical")
					rep.Distinct("refund:" + sig)
				}
			}
		}
	}
}
