package simapp

// jsonmut.go — an order- and duplicate-preserving JSON tree with an exhaustive single-point mutator
// (DESIGN §2/E2): at every node — delete, replace by null / every other JSON type / empty containers,
// duplicate the member, add an unknown sibling, type-URL swaps, enum spellings, byte-string lengths,
// integer spellings.

import (
	"bytes"
	"encoding/base64"
	"encoding/json"
	"fmt"
	"sort"
	"strings"
)

type jkind int

const (
	jObj jkind = iota
	jArr
	jStr
	jRaw // number / true / false / null, kept as raw text
)

type jnode struct {
	K    jkind
	Keys []string // objects
	Kids []*jnode // objects / arrays
	S    string   // string value (decoded) or raw token
}

func jparse(src string) (*jnode, error) {
	dec := json.NewDecoder(strings.NewReader(src))
	dec.UseNumber()
	n, err := jparseVal(dec)
	if err != nil {
		return nil, err
	}
	if dec.More() {
		return nil, fmt.Errorf("trailing data")
	}
	return n, nil
}

func jparseVal(dec *json.Decoder) (*jnode, error) {
	tok, err := dec.Token()
	if err != nil {
		return nil, err
	}
	switch t := tok.(type) {
	case json.Delim:
		switch t {
		case '{':
			n := &jnode{K: jObj}
			for dec.More() {
				kt, err := dec.Token()
				if err != nil {
					return nil, err
				}
				k, _ := kt.(string)
				v, err := jparseVal(dec)
				if err != nil {
					return nil, err
				}
				n.Keys = append(n.Keys, k)
				n.Kids = append(n.Kids, v)
			}
			_, err := dec.Token()
			return n, err
		case '[':
			n := &jnode{K: jArr}
			for dec.More() {
				v, err := jparseVal(dec)
				if err != nil {
					return nil, err
				}
				n.Kids = append(n.Kids, v)
			}
			_, err := dec.Token()
			return n, err
		}
	case string:
		return &jnode{K: jStr, S: t}, nil
	case json.Number:
		return &jnode{K: jRaw, S: t.String()}, nil
	case bool:
		return &jnode{K: jRaw, S: fmt.Sprint(t)}, nil
	case nil:
		return &jnode{K: jRaw, S: "null"}, nil
	}
	return nil, fmt.Errorf("unexpected token %v", tok)
}

func (n *jnode) write(b *bytes.Buffer) {
	switch n.K {
	case jObj:
		b.WriteByte('{')
		for i := range n.Kids {
			if i > 0 {
				b.WriteByte(',')
			}
			b.WriteString(jstr(n.Keys[i]))
			b.WriteByte(':')
			n.Kids[i].write(b)
		}
		b.WriteByte('}')
	case jArr:
		b.WriteByte('[')
		for i := range n.Kids {
			if i > 0 {
				b.WriteByte(',')
			}
			n.Kids[i].write(b)
		}
		b.WriteByte(']')
	case jStr:
		b.WriteString(jstr(n.S))
	default:
		b.WriteString(n.S)
	}
}

func (n *jnode) String() string {
	var b bytes.Buffer
	n.write(&b)
	return b.String()
}

func (n *jnode) clone() *jnode {
	c := &jnode{K: n.K, S: n.S, Keys: append([]string{}, n.Keys...)}
	for _, k := range n.Kids {
		c.Kids = append(c.Kids, k.clone())
	}
	return c
}

// jpath addresses a node: sequence of child indexes from the root.
type jpath []int

func (n *jnode) at(p jpath) *jnode {
	cur := n
	for _, i := range p {
		cur = cur.Kids[i]
	}
	return cur
}

func (n *jnode) paths() []jpath {
	var out []jpath
	var rec func(cur *jnode, p jpath)
	rec = func(cur *jnode, p jpath) {
		out = append(out, append(jpath{}, p...))
		for i, k := range cur.Kids {
			rec(k, append(p, i))
		}
	}
	rec(n, nil)
	return out
}

func (n *jnode) pathName(p jpath) string {
	cur := n
	var parts []string
	for _, i := range p {
		if cur.K == jObj {
			parts = append(parts, cur.Keys[i])
		} else {
			parts = append(parts, fmt.Sprintf("[%d]", i))
		}
		cur = cur.Kids[i]
	}
	return "$." + strings.Join(parts, ".")
}

// Mutation: a named edit applied to a clone of the tree.
// mutationCorpus: object nodes harvested from other base documents (set by the checks that have several seeds), so
// that a member seen in one seed can be added to the same-shaped object of another.
var mutationCorpus []*jnode

func objectsOf(root *jnode) []*jnode {
	var out []*jnode
	for _, p := range root.paths() {
		if n := root.at(p); n.K == jObj {
			out = append(out, n)
		}
	}
	return out
}

// setMutationCorpus harvests the object nodes of the given documents (idempotent; call before SingleMutations).
func setMutationCorpus(docs []string) {
	var out []*jnode
	for _, d := range docs {
		if t, err := jparse(d); err == nil {
			out = append(out, objectsOf(t)...)
		}
	}
	mutationCorpus = out
}

type Mutation struct {
	Name  string
	Path  jpath
	Apply func(root *jnode)
}

func rawNode(s string) *jnode { return &jnode{K: jRaw, S: s} }
func strNode(s string) *jnode { return &jnode{K: jStr, S: s} }

func b64len(n int) string {
	if n == 0 {
		return ""
	}
	return base64.StdEncoding.EncodeToString(bytes.Repeat([]byte{7}, n))
}

const twoTo256 = "115792089237316195423570985008687907853269984665640564039457584007913129639936"

// replacementsFor: candidate replacement nodes for the node at path p (context sensitive).
func replacementsFor(root *jnode, p jpath, typeURLs, enumNames []string) map[string]*jnode {
	cur := root.at(p)
	key := ""
	if len(p) > 0 {
		par := root.at(p[:len(p)-1])
		if par.K == jObj {
			key = par.Keys[p[len(p)-1]]
		}
	}
	out := map[string]*jnode{
		"null": rawNode("null"), "true": rawNode("true"), "0": rawNode("0"), "1": rawNode("1"), "-1": rawNode("-1"), "1.5": rawNode("1.5"),
		"2^256": rawNode(twoTo256), "-2^256": rawNode("-" + twoTo256), "1e400": rawNode("1e400"),
		`""`: strNode(""), `"x"`: strNode("x"), "[]": {K: jArr}, "{}": {K: jObj}, "[null]": {K: jArr, Kids: []*jnode{rawNode("null")}},
		`{"a":1}`: {K: jObj, Keys: []string{"a"}, Kids: []*jnode{rawNode("1")}}, "[[]]": {K: jArr, Kids: []*jnode{{K: jArr}}},
		`"2^256"`: strNode(twoTo256), `"-5"`: strNode("-5"),
	}
	if cur.K == jStr {
		switch {
		case key == "@type":
			for _, u := range typeURLs {
				out["url:"+u] = strNode(u)
			}
			out["url:unregistered"] = strNode("/noble.orbiter.controller.forwarding.v1.Nope")
			out["url:noslash"] = strNode(strings.TrimPrefix(cur.S, "/"))
			out["url:upper"] = strNode(strings.ToUpper(cur.S))
		case strings.HasPrefix(cur.S, "PROTOCOL_") || strings.HasPrefix(cur.S, "ACTION_"):
			for _, e := range enumNames {
				out["enum:"+e] = strNode(e)
			}
			for _, v := range []string{"-1", "0", "1", "2", "3", "4", "5", "2147483647", "2147483648", "4294967296", "1.0"} {
				out["enumnum:"+v] = rawNode(v)
				out["enumstr:"+v] = strNode(v)
			}
			out["enum:lower"] = strNode(strings.ToLower(cur.S))
		default:
			// byte strings (base64) of several lengths; integer spellings; address spellings
			for _, l := range []int{0, 1, 3, 20, 31, 32, 33, 64} {
				out[fmt.Sprintf("bytes:%d", l)] = strNode(b64len(l))
			}
			out["b64:invalid"] = strNode("!!!not-base64!!!")
			for _, v := range []string{"0", "1", "-1", "+1", "0x10", "1_0", "1e3", maxUint256Str, twoTo256, " 1", "abc", "00"} {
				out["int:"+v] = strNode(v)
			}
			out["str:upper"] = strNode(strings.ToUpper(cur.S))
			out["str:long"] = strNode(strings.Repeat("A", 5000))
			out["str:nul"] = strNode(cur.S + "\x00")
			// long strings whose length in bytes, runes and UTF-16 units differ by large factors (text that is cut,
			// padded or measured on its way into an error message or an event)
			out["str:long-4byte-runes"] = strNode(strings.Repeat("\U0001F600", 300))
			out["str:long-fullwidth-digits"] = strNode(strings.Repeat("１", 400))
			out["str:long-combining"] = strNode("a" + strings.Repeat("\u0301", 700))
		}
	}
	if cur.K == jRaw && cur.S != "null" && cur.S != "true" && cur.S != "false" {
		for _, v := range []string{"4294967295", "4294967296", "-0", "1e0", "10000", "10001", "18446744073709551616"} {
			out["num:"+v] = rawNode(v)
		}
		out["numstr"] = strNode(cur.S)
	}
	return out
}

// SingleMutations enumerates ALL single-point mutations of the tree (deterministic order).
func SingleMutations(root *jnode, typeURLs, enumNames []string) []Mutation {
	var out []Mutation
	for _, p := range root.paths() {
		p := p
		name := root.pathName(p)
		reps := replacementsFor(root, p, typeURLs, enumNames)
		var rk []string
		for k := range reps {
			rk = append(rk, k)
		}
		sort.Strings(rk)
		for _, k := range rk {
			rep := reps[k]
			if len(p) == 0 {
				out = append(out, Mutation{Name: name + " := " + k, Path: p, Apply: func(r *jnode) { *r = *rep.clone() }})
				continue
			}
			out = append(out, Mutation{Name: name + " := " + k, Path: p, Apply: func(r *jnode) {
				par := r.at(p[:len(p)-1])
				par.Kids[p[len(p)-1]] = rep.clone()
			}})
		}
		if len(p) == 0 {
			continue
		}
		idx := p[len(p)-1]
		parP := p[:len(p)-1]
		// delete
		out = append(out, Mutation{Name: name + " deleted", Path: p, Apply: func(r *jnode) {
			par := r.at(parP)
			par.Kids = append(par.Kids[:idx:idx], par.Kids[idx+1:]...)
			if par.K == jObj {
				par.Keys = append(par.Keys[:idx:idx], par.Keys[idx+1:]...)
			}
		}})
		par := root.at(parP)
		if par.K == jObj {
			key := par.Keys[idx]
			// duplicate member: same value again; null first then value; value then null; value then {}
			for _, d := range []struct {
				n     string
				first bool
				v     *jnode
			}{{"dup-same-after", false, nil}, {"dup-null-before", true, rawNode("null")}, {"dup-null-after", false, rawNode("null")}, {"dup-emptyobj-after", false, &jnode{K: jObj}}, {"dup-str-before", true, strNode("x")}} {
				d := d
				out = append(out, Mutation{Name: name + " " + d.n, Path: p, Apply: func(r *jnode) {
					par := r.at(parP)
					v := d.v
					if v == nil {
						v = par.Kids[idx].clone()
					}
					if d.first {
						par.Keys = append([]string{key}, par.Keys...)
						par.Kids = append([]*jnode{v.clone()}, par.Kids...)
					} else {
						par.Keys = append(par.Keys, key)
						par.Kids = append(par.Kids, v.clone())
					}
				}})
			}
			// rename: camelCase <-> snake_case, upper case, unknown
			for _, nk := range []string{toCamel(key), toSnake(key), strings.ToUpper(key), key + "_x", strings.Repeat("\U0001F600", 300), strings.Repeat("k", 3000)} {
				nk := nk
				if nk == key {
					continue
				}
				out = append(out, Mutation{Name: name + " renamed " + nk, Path: p, Apply: func(r *jnode) { r.at(parP).Keys[idx] = nk }})
			}
		}
		if par.K == jArr {
			out = append(out, Mutation{Name: name + " duplicated-element", Path: p, Apply: func(r *jnode) {
				par := r.at(parP)
				par.Kids = append(par.Kids, par.Kids[idx].clone())
			}})
		}
	}
	// unknown sibling in every object; null appended to every array
	for _, p := range root.paths() {
		p := p
		cur := root.at(p)
		if cur.K == jObj {
			for _, sib := range []struct {
				k string
				v *jnode
			}{{"unknown_field", rawNode("1")}, {"", strNode("")}, {"@type", strNode(urlFee)}, {"orbiter", &jnode{K: jObj}}} {
				sib := sib
				out = append(out, Mutation{Name: root.pathName(p) + " +sibling " + jstr(sib.k), Path: p, Apply: func(r *jnode) {
					o := r.at(p)
					o.Keys = append(o.Keys, sib.k)
					o.Kids = append(o.Kids, sib.v.clone())
				}})
			}
		}
		if cur.K == jObj {
			// KNOWN siblings: members that objects of the same shape carry elsewhere (in this document or in the
			// corpus): the other member of a oneof next to the one present, an optional field that was absent; and the
			// second JSON name (camelCase <-> snake_case) of a member already present, with the same and with another
			// value. Decoders that collect members into a map decide such documents by map order or by a fixed
			// preference — either way the module must give ONE answer.
			have := map[string]bool{}
			for _, k := range cur.Keys {
				have[k] = true
			}
			seen := map[string]bool{}
			addMember := func(tag, k string, v *jnode) {
				id := k + "=" + v.String()
				if seen[id] {
					return
				}
				seen[id] = true
				v = v.clone()
				out = append(out, Mutation{Name: root.pathName(p) + " +" + tag + " " + jstr(k) + ":" + trunc(v.String(), 60), Path: p, Apply: func(r *jnode) {
					o := r.at(p)
					o.Keys = append(o.Keys, k)
					o.Kids = append(o.Kids, v.clone())
				}})
			}
			for _, o := range append(objectsOf(root), mutationCorpus...) {
				if o == cur {
					continue
				}
				shares := false
				for _, k := range o.Keys {
					if have[k] && k != "@type" && k != "value" {
						shares = true
						break
					}
				}
				if !shares {
					continue
				}
				for i, k := range o.Keys {
					if !have[k] {
						addMember("known-member", k, o.Kids[i])
						// ... and present-but-empty: proto3 JSON reads null as "unset", decoders that record the member
						// before looking at its value do not
						addMember("known-member", k, rawNode("null"))
						addMember("known-member", k, &jnode{K: jObj})
					}
				}
			}
			for i, k := range cur.Keys {
				alias := toCamel(k)
				if alias == k {
					alias = toSnake(k)
				}
				if alias == k || have[alias] {
					continue
				}
				addMember("alias-same-value", alias, cur.Kids[i])
				for _, o := range append(objectsOf(root), mutationCorpus...) {
					for j, ok := range o.Keys {
						if ok == k && o.Kids[j].String() != cur.Kids[i].String() {
							addMember("alias-other-value", alias, o.Kids[j])
						}
					}
				}
			}
		}
		if cur.K == jArr {
			out = append(out, Mutation{Name: root.pathName(p) + " +null-element", Path: p, Apply: func(r *jnode) { a := r.at(p); a.Kids = append(a.Kids, rawNode("null")) }})
			out = append(out, Mutation{Name: root.pathName(p) + " +6-elements", Path: p, Apply: func(r *jnode) {
				a := r.at(p)
				if len(a.Kids) > 0 {
					for len(a.Kids) < 6 {
						a.Kids = append(a.Kids, a.Kids[0].clone())
					}
				}
			}})
		}
	}
	return out
}

func toCamel(s string) string {
	parts := strings.Split(s, "_")
	for i := 1; i < len(parts); i++ {
		if parts[i] != "" {
			parts[i] = strings.ToUpper(parts[i][:1]) + parts[i][1:]
		}
	}
	return strings.Join(parts, "")
}

func toSnake(s string) string {
	var b strings.Builder
	for i, r := range s {
		if r >= 'A' && r <= 'Z' {
			if i > 0 {
				b.WriteByte('_')
			}
			b.WriteRune(r + 32)
		} else {
			b.WriteRune(r)
		}
	}
	return b.String()
}

// applyMutations returns the mutated document text.
func applyMutations(root *jnode, ms ...Mutation) (s string, ok bool) {
	defer func() {
		if r := recover(); r != nil {
			ok = false // the second mutation's path no longer exists after the first one
		}
	}()
	c := root.clone()
	for _, m := range ms {
		m.Apply(c)
	}
	return c.String(), true
}
