package simapp

// C12 — dispatch statistics equal the fold of the successful transfers.
// E1 over bounded histories with a ledger reference model stepped in lock-step; after EVERY transition
// the exported dispatcher genesis and every direct-lookup query must equal the model exactly.

import (
	"fmt"
	"math/big"
	"sort"
	"strings"

	sdk "github.com/cosmos/cosmos-sdk/types"
	"google.golang.org/grpc/codes"
	"google.golang.org/grpc/status"

	dispatchertypes "github.com/noble-assets/orbiter/v2/types/component/dispatcher"
)

type statAmt struct{ In, Out *big.Int }

// statsModel: immutable reference ledger. Keys: "srcProto:srcCP|dstProto:dstCP|denom" and "srcProto:srcCP|dstProto:dstCP".
type statsModel struct {
	Amt map[string]statAmt
	Cnt map[string]uint64
	// Undefined: keys whose true sum left the 256-bit range (the property cannot be met by any
	// implementation there; such keys are excluded from comparison but the run continues).
	Undefined map[string]bool
}

func newStatsModel() statsModel {
	return statsModel{Amt: map[string]statAmt{}, Cnt: map[string]uint64{}, Undefined: map[string]bool{}}
}

func (m statsModel) clone() statsModel {
	n := newStatsModel()
	for k, v := range m.Amt {
		n.Amt[k] = statAmt{new(big.Int).Set(v.In), new(big.Int).Set(v.Out)}
	}
	for k, v := range m.Cnt {
		n.Cnt[k] = v
	}
	for k := range m.Undefined {
		n.Undefined[k] = true
	}
	return n
}

var protoNum = map[string]int{"PROTOCOL_IBC": 1, "PROTOCOL_CCTP": 2, "PROTOCOL_HYPERLANE": 3, "PROTOCOL_INTERNAL": 4}
var protoNameOf = map[int]string{1: "PROTOCOL_IBC", 2: "PROTOCOL_CCTP", 3: "PROTOCOL_HYPERLANE", 4: "PROTOCOL_INTERNAL"}

func (f Fwd) destID() (int, string) {
	switch f.Kind {
	case "cctp":
		return 2, fmt.Sprint(f.Domain)
	case "hyp":
		return 3, fmt.Sprint(f.Domain)
	}
	return 4, "noble"
}

// record adds one successful transfer (in A, out A-Σfees; one entry: the denom is unchanged by fees).
func (m statsModel) record(t TransferSpec) statsModel {
	A, _ := parseIntLikeSDK(t.Amount)
	dp, dc := t.Fwd.destID()
	route := fmt.Sprintf("1:%s|%d:%s", t.Chan, dp, dc)
	n := m.clone()
	add := func(denom string, in, out *big.Int) {
		k := route + "|" + denom
		cur, ok := n.Amt[k]
		if !ok {
			cur = statAmt{new(big.Int), new(big.Int)}
		}
		cur.In.Add(cur.In, in)
		cur.Out.Add(cur.Out, out)
		n.Amt[k] = cur
		if cur.In.Cmp(maxU256) > 0 || cur.Out.Cmp(maxU256) > 0 {
			n.Undefined[k] = true
			n.Undefined[route] = true // the count of this route may or may not be kept once an amount is out of range
		}
	}
	if t.Fwd.SwapFirst {
		// swapT: x of Base -> 2x uusdc, then the fee list on the running (uusdc) amount: two entries
		run := new(big.Int).Mul(A, big.NewInt(2))
		fr := feeRef(run, t.Fees)
		add(t.Base, A, new(big.Int))
		add(denomUSDC, new(big.Int), new(big.Int).Sub(run, fr.Total))
	} else {
		fr := feeRef(A, t.Fees)
		add(t.Base, A, new(big.Int).Sub(A, fr.Total))
	}
	n.Cnt[route]++
	return n
}

func (m statsModel) canon() []string {
	var out []string
	for k, v := range m.Amt {
		if m.Undefined[k] {
			continue
		}
		out = append(out, fmt.Sprintf("A %s in=%s out=%s", k, v.In, v.Out))
	}
	for k, v := range m.Cnt {
		if m.Undefined[k] {
			continue
		}
		out = append(out, fmt.Sprintf("C %s n=%d", k, v))
	}
	sort.Strings(out)
	return out
}

// exportedStats: canonical form of the exported dispatcher genesis (minus model-undefined keys).
func (w *World) exportedStats(ctx sdk.Context, undefined map[string]bool) ([]string, *dispatchertypes.GenesisState) {
	g := w.App.OrbiterKeeper.ExportGenesis(ctx).DispatcherGenesis
	var out []string
	for _, a := range g.DispatchedAmounts {
		k := fmt.Sprintf("%d:%s|%d:%s|%s", int32(a.SourceId.ProtocolId), a.SourceId.CounterpartyId, int32(a.DestinationId.ProtocolId), a.DestinationId.CounterpartyId, a.Denom)
		if undefined[k] {
			continue
		}
		out = append(out, fmt.Sprintf("A %s in=%s out=%s", k, a.AmountDispatched.Incoming, a.AmountDispatched.Outgoing))
	}
	for _, c := range g.DispatchedCounts {
		k := fmt.Sprintf("%d:%s|%d:%s", int32(c.SourceId.ProtocolId), c.SourceId.CounterpartyId, int32(c.DestinationId.ProtocolId), c.DestinationId.CounterpartyId)
		if undefined[k] {
			continue
		}
		out = append(out, fmt.Sprintf("C %s n=%d", k, c.Count))
	}
	sort.Strings(out)
	return out, g
}

func (w *World) QDispatchedAmount(ctx sdk.Context, sp, sc, dp, dc, denom string) (in, out string, found bool, err error) {
	var r dispatchertypes.QueryDispatchedAmountsResponse
	err = w.Query(ctx, qDis+"DispatchedAmounts", &dispatchertypes.QueryDispatchedAmountsRequest{SourceProtocolId: sp, SourceCounterpartyId: sc,
		DestinationProtocolId: dp, DestinationCounterpartyId: dc, Denom: denom}, &r)
	if err != nil {
		if status.Code(err) == codes.NotFound {
			return "", "", false, nil
		}
		return "", "", false, err
	}
	if len(r.Amounts) != 1 {
		return "", "", false, fmt.Errorf("direct lookup returned %d entries", len(r.Amounts))
	}
	return r.Amounts[0].AmountDispatched.Incoming.String(), r.Amounts[0].AmountDispatched.Outgoing.String(), true, nil
}

func (w *World) QDispatchedCount(ctx sdk.Context, sp, sc, dp, dc string) (n uint64, found bool, err error) {
	var r dispatchertypes.QueryDispatchedCountsResponse
	err = w.Query(ctx, qDis+"DispatchedCounts", &dispatchertypes.QueryDispatchedCountsRequest{SourceProtocolId: sp, SourceCounterpartyId: sc,
		DestinationProtocolId: dp, DestinationCounterpartyId: dc}, &r)
	if err != nil {
		if status.Code(err) == codes.NotFound {
			return 0, false, nil
		}
		return 0, false, err
	}
	if len(r.Counts) != 1 {
		return 0, false, fmt.Errorf("direct lookup returned %d entries", len(r.Counts))
	}
	return r.Counts[0].Count, true, nil
}

func (w *World) statsPrefix() ([]Op, map[string]TransferSpec) {
	orb := w.Orb.String()
	specs := map[string]TransferSpec{}
	var ops []Op
	addT := func(t TransferSpec) {
		op := w.OpRecv(t.Label(), t.Pkt())
		specs[op.Label] = t
		ops = append(ops, op)
	}
	half := new(big.Int).Lsh(big.NewInt(1), 255).String()
	addT(TransferSpec{"channel-0", denomUSDC, "1000", orb, w.FwdCCTP(0), nil})
	addT(TransferSpec{"channel-0", denomUSDC, "10000", orb, w.FwdCCTP(0), []FeeSpec{{To: w.Fee1.String(), Bps: 100}}})
	addT(TransferSpec{"channel-0", denomUSDC, "2000", orb, w.FwdCCTPCaller(1), []FeeSpec{{To: w.Fee1.String(), Fixed: "7"}}})
	addT(TransferSpec{"channel-1", denomUSDC, "300", orb, w.FwdCCTP(0), nil})
	addT(TransferSpec{"channel-0", denomUSDC, "777", orb, w.FwdHyp(1), nil})
	addT(TransferSpec{"channel-1", denomUSDC, "555", orb, w.FwdHyp(2), []FeeSpec{{To: w.Fee2.String(), Bps: 250}}})
	addT(TransferSpec{"channel-0", denomUSDC, "500", orb, w.FwdInternal(w.Bob), nil})
	addT(TransferSpec{"channel-1", denomOTH, "10001", orb, w.FwdInternal(w.Bob), []FeeSpec{{To: w.Fee1.String(), Fixed: "7"}, {To: w.Fee2.String(), Bps: 100}}})
	addT(TransferSpec{"channel-0", denomOTH, "42", orb, w.FwdInternal(w.Carol), nil})
	addT(TransferSpec{"channel-0", denomBIG, half, orb, w.FwdInternal(w.Bob), nil})
	// totals crossing 2^63 and 2^64 while later transfers on the same route are small
	addT(TransferSpec{"channel-0", denomBIG, "9223372036854775808", orb, w.FwdInternal(w.Carol), nil})
	addT(TransferSpec{"channel-0", denomBIG, "18446744073709551617", orb, w.FwdInternal(w.Carol), []FeeSpec{{To: w.Fee1.String(), Bps: 1}}})
	addT(TransferSpec{"channel-0", denomBIG, "7", orb, w.FwdInternal(w.Carol), nil})
	addT(TransferSpec{"channel-1", denomUSDC, "500", orb, w.FwdInternal(w.Bob), nil}) // overflows the accumulator after Env(seed-stats-top)
	// ... and one whose INCOMING total overflows there while the outgoing total still fits (amount 15, fee 10: +15 / +5 on totals 10 below the top)
	addT(TransferSpec{"channel-1", denomUSDC, "15", orb, w.FwdInternal(w.Bob), []FeeSpec{{To: w.Fee1.String(), Fixed: "10"}}})
	// refused transfers
	addT(TransferSpec{"channel-0", denomUSDC, "2000000", orb, w.FwdCCTP(0), nil}) // over the CCTP burn limit
	addT(TransferSpec{"channel-0", denomUSDC, "100", orb, w.FwdHyp(3), nil})      // no enrolled router
	ops = append(ops,
		w.OpRecv("malformed-payload", NewPkt("channel-0", denomUSDC, "100", orb, `{"orbiter":{"forwarding":{}}}`)),
		w.OpRecv("plainICS20(bob,300uusdc)", NewPkt("channel-0", denomUSDC, "300", w.Bob.String(), "")),
		w.OpPauseProtocol("PROTOCOL_CCTP"), w.OpUnpauseProtocol("PROTOCOL_CCTP"),
		w.OpUpdateParams(8),
		w.OpDeposit(w.Orb, denomUSDC, 5),
		OpEnv("seed-stats-top"),
	)
	return ops, specs
}

func init() { register("C12", checkC12) }

func checkC12(tier string) *Report {
	rep := NewReport("C12", tier, "model_checking")
	rep.Rule = "all operation sequences up to depth D over the prefix alphabet; after every transition export+queries are compared with the reference ledger; a case is non-trivial when the transition was a successful transfer (the ledger changed)"
	rep.Assumptions = []string{
		"IBC core discard-on-error and baseapp rollback emulated (DESIGN §1.3)",
		"keys whose true sum exceeds 2^256-1 are outside what any implementation can record and are excluded from comparison (the run continues; no panic may occur)",
		"denomination-changing actions (two entries per transfer) are exercised in the instrumented part (C06 harness), not in the deployed controller set",
	}
	worlds, err := buildWorlds(numWorkers())
	if err != nil {
		rep.HarnessError("fixture: %v", err)
		return rep
	}
	alpha, specs := worlds[0].statsPrefix()
	depth := 3
	if tier == "thorough" {
		depth = 5
	}
	x := &Explorer{Rep: rep, Prefix: alpha, Depth: depth, Budget: budgetFromEnv(map[string]int{"quick": 8, "thorough": 60}[tier])}
	x.ModelInit = func(w *World) any { return newStatsModel() }
	x.ModelStep = func(w *World, model any, op Op, res OpResult, pre, post sdk.Context) any {
		m := model.(statsModel)
		if op.Env == "seed-stats-top" && res.Succeeded() {
			n := m.clone()
			top := new(big.Int).Sub(maxU256, big.NewInt(10))
			n.Amt["1:channel-1|4:noble|"+denomUSDC] = statAmt{new(big.Int).Set(top), new(big.Int).Set(top)}
			n.Cnt["1:channel-1|4:noble"] = 1
			return n
		}
		if op.Pkt == nil || res.Recv == nil || !res.Recv.Written {
			return m
		}
		if t, ok := specs[op.Label]; ok {
			return m.record(t)
		}
		return m
	}
	x.OnTransition = func(wk *Worker, n Node, op Op, res OpResult, pre, post sdk.Context, pm, qm any) {
		w := wk.W
		m2 := qm.(statsModel)
		sig := strings.Join(append(pathLabels(alpha, n.Path), op.Label), " ; ")
		replay := func() []byte {
			return mustJSON(map[string]any{"ops": append(n.Ops(alpha), op), "expect": []replayExpect{{Kind: "no_panic", Want: true}}})
		}
		if res.Recv != nil && res.Recv.Panic != "" {
			rep.Outcome("panic")
			rep.Violate(Violation{Kind: "panic", Group: op.Label, Sig: sig, Replay: replay(), What: "receive path panicked: " + res.Recv.Panic + " after " + sig})
			return
		}
		changed := res.Recv != nil && res.Recv.Written && func() bool { _, ok := specs[op.Label]; return ok }()
		if changed {
			rep.Outcome("successful-transfer")
			rep.Distinct(sig)
		} else if op.Env == "seed-stats-top" {
			rep.Outcome("stats-imported")
		} else {
			rep.Outcome("no-stat-change-expected")
			// refused / foreign / admin transitions must leave the dispatcher's store bytes unchanged
			a, b := w.DumpStore(pre, "orbiter"), w.DumpStore(post, "orbiter")
			for k, v := range b {
				if isDispatcherKey(k) && a[k] != v {
					rep.Violate(Violation{Kind: "stats-changed-without-successful-transfer", Group: op.Label, Sig: sig, Replay: replay(),
						What: fmt.Sprintf("%s changed dispatcher store key %s", op.Label, k)})
				}
			}
			for k := range a {
				if _, ok := b[k]; !ok && isDispatcherKey(k) {
					rep.Violate(Violation{Kind: "stats-changed-without-successful-transfer", Group: op.Label, Sig: sig, Replay: replay(),
						What: fmt.Sprintf("%s removed dispatcher store key %s", op.Label, k)})
				}
			}
		}
		// model == export, exactly
		got, _ := w.exportedStats(post, m2.Undefined)
		want := m2.canon()
		if strings.Join(got, "\n") != strings.Join(want, "\n") {
			rep.Violate(Violation{Kind: "export-differs-from-fold", Group: op.Label, Sig: sig, Replay: replay(),
				What: fmt.Sprintf("after %s exported statistics differ from the fold of successful transfers:\n got  %v\n want %v", sig, got, want)})
		}
		// keys whose true sum cannot be represented: what is stored is open, but within bounds — a total never goes
		// backwards and never exceeds the true sum (sums of non-negative amounts are monotone), a count likewise
		if len(m2.Undefined) > 0 {
			read := func(c sdk.Context) (map[string][2]*big.Int, map[string]uint64) {
				_, g := w.exportedStats(c, nil)
				am, cn := map[string][2]*big.Int{}, map[string]uint64{}
				for _, a := range g.DispatchedAmounts {
					k := fmt.Sprintf("%d:%s|%d:%s|%s", int32(a.SourceId.ProtocolId), a.SourceId.CounterpartyId, int32(a.DestinationId.ProtocolId), a.DestinationId.CounterpartyId, a.Denom)
					am[k] = [2]*big.Int{a.AmountDispatched.Incoming.BigInt(), a.AmountDispatched.Outgoing.BigInt()}
				}
				for _, c := range g.DispatchedCounts {
					cn[fmt.Sprintf("%d:%s|%d:%s", int32(c.SourceId.ProtocolId), c.SourceId.CounterpartyId, int32(c.DestinationId.ProtocolId), c.DestinationId.CounterpartyId)] = c.Count
				}
				return am, cn
			}
			pa, pc := read(pre)
			qa, qc := read(post)
			zero := [2]*big.Int{new(big.Int), new(big.Int)}
			for k := range m2.Undefined {
				if strings.Count(k, "|") == 2 {
					p, q := pa[k], qa[k]
					if p[0] == nil {
						p = zero
					}
					if q[0] == nil {
						q = zero
					}
					t := m2.Amt[k]
					if q[0].Cmp(p[0]) < 0 || q[1].Cmp(p[1]) < 0 || q[0].Cmp(t.In) > 0 || q[1].Cmp(t.Out) > 0 {
						rep.Violate(Violation{Kind: "unrepresentable-total-out-of-bounds", Group: op.Label, Sig: sig + "|" + k, Replay: replay(),
							What: fmt.Sprintf("entry %s: stored totals went from in=%s out=%s to in=%s out=%s; the true sums are in=%s out=%s (a total may stop growing when the sum cannot be represented, it may not go backwards or exceed the sum) after %s", k, p[0], p[1], q[0], q[1], t.In, t.Out, sig)})
					}
				} else if qc[k] < pc[k] || qc[k] > m2.Cnt[k] {
					rep.Violate(Violation{Kind: "unrepresentable-total-out-of-bounds", Group: op.Label, Sig: sig + "|" + k, Replay: replay(),
						What: fmt.Sprintf("route %s: stored count went from %d to %d; %d transfers succeeded after %s", k, pc[k], qc[k], m2.Cnt[k], sig)})
				}
			}
		}
		rep.Count("traces_validated_against_impl", 1)
		// direct lookups for every model key
		for k, v := range m2.Amt {
			if m2.Undefined[k] {
				continue
			}
			var sp, dp int
			var sc, dc, denom string
			parts := strings.Split(k, "|")
			fmt.Sscanf(parts[0], "%d:", &sp)
			sc = parts[0][strings.Index(parts[0], ":")+1:]
			fmt.Sscanf(parts[1], "%d:", &dp)
			dc = parts[1][strings.Index(parts[1], ":")+1:]
			denom = parts[2]
			in, out, found, err := w.QDispatchedAmount(post, protoNameOf[sp], sc, protoNameOf[dp], dc, denom)
			if err != nil || !found || in != v.In.String() || out != v.Out.String() {
				rep.Violate(Violation{Kind: "direct-lookup-differs", Group: op.Label, Sig: sig + "|" + k, Replay: replay(),
					What: fmt.Sprintf("DispatchedAmounts(%s) = (%s,%s,found=%v,err=%v), model in=%s out=%s after %s", k, in, out, found, err, v.In, v.Out, sig)})
			}
			cnt, found, err := w.QDispatchedCount(post, protoNameOf[sp], sc, protoNameOf[dp], dc)
			route := parts[0] + "|" + parts[1]
			if !m2.Undefined[route] && (err != nil || !found || cnt != m2.Cnt[route]) {
				rep.Violate(Violation{Kind: "direct-lookup-differs", Group: op.Label, Sig: sig + "|" + route, Replay: replay(),
					What: fmt.Sprintf("DispatchedCounts(%s) = (%d,found=%v,err=%v), model %d after %s", route, cnt, found, err, m2.Cnt[route], sig)})
			}
			rep.Count("queries", 2)
		}
		// same-denom routes: in - out = fees credited (checked against the observed ledger on this transition)
		if changed {
			t := specs[op.Label]
			before, after := w.Snapshot(pre), w.Snapshot(post)
			bal, sup := LedgerDelta(before, after)
			expBal, expSup, _, err := w.expectedDelta(t, before.Get(w.Orb, t.Base).BigInt())
			if err != nil || !bal.Equal(expBal) || !sup.Equal(expSup) {
				rep.Violate(Violation{Kind: "model-vs-ledger", Group: op.Label, Sig: sig, Replay: replay(),
					What: fmt.Sprintf("observed ledger delta bal=%s supply=%s differs from what the statistics model recorded (bal=%s supply=%s, err=%v) for %s", bal, sup, expBal, expSup, err, op.Label)})
			}
		}
	}
	x.OnState = func(wk *Worker, n Node, ctx sdk.Context, model any) {
		if len(n.Path) == depth && n.Path[0] < 3 {
			rep.Sample(map[string]any{"history": pathLabels(alpha, n.Path), "ledger": model.(statsModel).canon()})
		}
	}
	x.RunOn(worlds)
	// ---- second exploration: denomination-changing action (two entries per transfer), instrumented stand
	{
		sw, err := buildWorlds(numWorkers())
		if err != nil {
			rep.HarnessError("fixture: %v", err)
			return rep
		}
		for _, w := range sw {
			in, err := NewInstr(w, true)
			if err != nil {
				rep.HarnessError("instr: %v", err)
				return rep
			}
			w.UseInstr = in
		}
		w := sw[0]
		orb := w.Orb.String()
		swapFwd := func(f Fwd) Fwd { f.SwapFirst = true; f.Tag = "swap+" + f.String(); return f }
		alpha2 := []Op{}
		specs2 := map[string]TransferSpec{}
		for _, t := range []TransferSpec{
			{"channel-0", denomOTH, "10", orb, swapFwd(w.FwdInternal(w.Bob)), nil},
			{"channel-0", denomOTH, "25", orb, swapFwd(w.FwdInternal(w.Bob)), []FeeSpec{{To: w.Fee1.String(), Bps: 1000}}},
			{"channel-0", denomOTH, "40", orb, swapFwd(w.FwdCCTP(0)), nil},
			{"channel-0", denomUSDC, "63", orb, w.FwdInternal(w.Bob), nil},
			{"channel-0", denomOTH, "9", orb, w.FwdInternal(w.Bob), nil},
			{"channel-0", denomUSDC, "500", orb, w.FwdCCTP(0), []FeeSpec{{To: w.Fee1.String(), Fixed: "7"}}},
			{"channel-1", denomOTH, "11", orb, swapFwd(w.FwdInternal(w.Bob)), nil},
		} {
			op := w.OpRecv(t.Label(), t.Pkt())
			specs2[op.Label] = t
			alpha2 = append(alpha2, op)
		}
		alpha2 = append(alpha2, w.OpRecv("swap-refused(hyp3)", NewPkt("channel-0", denomOTH, "5", orb, MemoJSON(w.FwdHyp(3), swapActionJSON))))
		saveAlpha, saveSpecs := alpha, specs
		alpha, specs = alpha2, specs2
		before := rep.Counters["states"]
		x2 := &Explorer{Rep: rep, Prefix: alpha2, Depth: depth, Budget: x.Budget, ModelInit: x.ModelInit, ModelStep: x.ModelStep, OnTransition: x.OnTransition}
		x2.RunOn(sw)
		rep.Extra["swap_exploration_states"] = rep.Counters["states"] - before
		alpha, specs = saveAlpha, saveSpecs
	}
	rep.Guard(rep.Outcomes["successful-transfer"] > 100 && rep.Outcomes["no-stat-change-expected"] > 100, "outcome classes missing: %v", rep.Outcomes)
	rep.Guard(rep.Counters["states"] >= 200, "too few states: %d", rep.Counters["states"])
	// chain level: the real block history of loop.go (signed transactions, IBC core over the localhost client); the
	// statistics at its end must be the fold of the transfers core acknowledged with success
	if _, err := loopRun(rep, tier == "thorough"); err != nil {
		rep.HarnessError("real block history: %v", err)
	}
	rep.Guard(rep.Outcomes["real-history-statistics-equal-the-fold"]+int64(rep.NumViolations()) > 0, "real block history did not reach the statistics comparison")
	return rep
}

// dispatcher collections live under prefixes 30..34 of the orbiter store (types/core/keys.go).
func isDispatcherKey(hexKey string) bool {
	if len(hexKey) < 2 {
		return false
	}
	switch hexKey[:2] {
	case "1e", "1f", "20", "21", "22":
		return true
	}
	return false
}
