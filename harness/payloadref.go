package simapp

// payloadref.go — the well-formedness reference predicate of C15 ("accepted ⇒ well-formed"), evaluated on
// the GENERIC JSON tree of the memo and on the protobuf DESCRIPTORS (not on the module's Go types or
// validation code): single root member "orbiter"; exactly one forwarding with a supported protocol id
// and attributes whose type URL is registered for ForwardingAttributes; pre-actions with pairwise
// distinct supported ids and ActionAttributes-registered attribute types; no unknown field anywhere.
//
// Leniency (so that the predicate is never stricter than proto3-JSON): null for a message / repeated
// field means absent; snake_case and camelCase member names are both known; enum values may be names or
// integral JSON numbers; only structure named by the property is judged, never attribute-level validity.

import (
	"encoding/json"
	"fmt"
	"math"

	gogoproto "github.com/cosmos/gogoproto/proto"
	"google.golang.org/protobuf/reflect/protoreflect"
	"google.golang.org/protobuf/reflect/protoregistry"
)

type payloadRefT struct {
	files      *protoregistry.Files
	fwdURLs    map[string]bool
	actURLs    map[string]bool
}

func (w *World) newPayloadRef() (*payloadRefT, error) {
	files, err := gogoproto.MergedRegistry()
	if err != nil {
		return nil, err
	}
	p := &payloadRefT{files: files, fwdURLs: map[string]bool{}, actURLs: map[string]bool{}}
	for _, u := range w.App.interfaceRegistry.ListImplementations("noble.orbiter.v1.ForwardingAttributes") {
		p.fwdURLs[u] = true
	}
	for _, u := range w.App.interfaceRegistry.ListImplementations("noble.orbiter.v1.ActionAttributes") {
		p.actURLs[u] = true
	}
	if len(p.fwdURLs) == 0 || len(p.actURLs) == 0 {
		return nil, fmt.Errorf("no registered attribute implementations found")
	}
	return p, nil
}

func (p *payloadRefT) msg(name string) protoreflect.MessageDescriptor {
	d, err := p.files.FindDescriptorByName(protoreflect.FullName(name))
	if err != nil {
		return nil
	}
	md, _ := d.(protoreflect.MessageDescriptor)
	return md
}

func findField(md protoreflect.MessageDescriptor, key string) protoreflect.FieldDescriptor {
	fs := md.Fields()
	for i := 0; i < fs.Len(); i++ {
		f := fs.Get(i)
		if string(f.Name()) == key || f.JSONName() == key {
			return f
		}
	}
	return nil
}

// WellFormed judges a memo. The boolean is the verdict; the string says why not.
func (p *payloadRefT) WellFormed(memo string) (bool, string) {
	var root any
	if err := json.Unmarshal([]byte(memo), &root); err != nil {
		return false, "not JSON"
	}
	obj, ok := root.(map[string]any)
	if !ok {
		return false, "root is not an object"
	}
	if len(obj) != 1 {
		return false, fmt.Sprintf("root has %d members", len(obj))
	}
	orb, ok := obj["orbiter"].(map[string]any)
	if !ok {
		return false, "root member is not a non-null object named orbiter"
	}
	md := p.msg("noble.orbiter.core.v1.Payload")
	if md == nil {
		return false, "HARNESS: Payload descriptor not found"
	}
	if ok, why := p.checkMsg(orb, md, "orbiter"); !ok {
		return false, why
	}
	// exactly one forwarding, supported id, attributes present
	fw, ok := firstOf(orb, "forwarding").(map[string]any)
	if !ok {
		return false, "no forwarding"
	}
	if !enumSupported(firstOf(fw, "protocolId", "protocol_id") /* when both spellings are present the decoder takes the JSON name */, p.enum("noble.orbiter.core.v1.ProtocolID")) {
		return false, "forwarding protocol id not supported"
	}
	if _, ok := fw["attributes"].(map[string]any); !ok {
		return false, "forwarding attributes missing"
	}
	seen := map[int32]bool{}
	if pa := firstOf(orb, "preActions", "pre_actions"); pa != nil {
		arr, ok := pa.([]any)
		if !ok {
			return false, "pre_actions is not a list"
		}
		for i, e := range arr {
			a, ok := e.(map[string]any)
			if !ok {
				return false, fmt.Sprintf("pre_actions[%d] is not an object", i)
			}
			ed := p.enum("noble.orbiter.core.v1.ActionID")
			if !enumSupported(a["id"], ed) {
				return false, fmt.Sprintf("pre_actions[%d] id not supported", i)
			}
			n := enumNumber(a["id"], ed)
			if seen[n] {
				return false, "repeated action identifier"
			}
			seen[n] = true
			if _, ok := a["attributes"].(map[string]any); !ok {
				return false, fmt.Sprintf("pre_actions[%d] attributes missing", i)
			}
		}
	}
	return true, ""
}

func firstOf(m map[string]any, keys ...string) any {
	for _, k := range keys {
		if v, ok := m[k]; ok && v != nil {
			return v
		}
	}
	return nil
}

func (p *payloadRefT) enum(name string) protoreflect.EnumDescriptor {
	d, err := p.files.FindDescriptorByName(protoreflect.FullName(name))
	if err != nil {
		return nil
	}
	ed, _ := d.(protoreflect.EnumDescriptor)
	return ed
}

func enumNumber(v any, ed protoreflect.EnumDescriptor) int32 {
	if ed == nil {
		return -1
	}
	switch t := v.(type) {
	case string:
		if ev := ed.Values().ByName(protoreflect.Name(t)); ev != nil {
			return int32(ev.Number())
		}
	case float64:
		if t == math.Trunc(t) && t >= math.MinInt32 && t <= math.MaxInt32 {
			return int32(t)
		}
	}
	return -1
}

// enumSupported: a known value of the enum other than the zero ("UNSUPPORTED") value.
func enumSupported(v any, ed protoreflect.EnumDescriptor) bool {
	n := enumNumber(v, ed)
	if n <= 0 || ed == nil {
		return false
	}
	return ed.Values().ByNumber(protoreflect.EnumNumber(n)) != nil
}

// checkMsg: no unknown member anywhere below obj (recursively, through Any values by their @type).
func (p *payloadRefT) checkMsg(obj map[string]any, md protoreflect.MessageDescriptor, where string) (bool, string) {
	for k, v := range obj {
		f := findField(md, k)
		if f == nil {
			return false, fmt.Sprintf("unknown field %q in %s", k, where)
		}
		if f.Kind() != protoreflect.MessageKind || v == nil {
			continue
		}
		if string(f.Name()) == k && f.JSONName() != k {
			if _, both := obj[f.JSONName()]; both {
				// both spellings of this field are present: the decoder takes the JSON name and never looks at this
				// member's value (documents spelling a field twice are judged on the decoded value, DESIGN §3/C15)
				continue
			}
		}
		sub := f.Message()
		check := func(e any, w2 string) (bool, string) {
			m, ok := e.(map[string]any)
			if !ok {
				return false, fmt.Sprintf("%s is not an object", w2)
			}
			if sub.FullName() == "google.protobuf.Any" {
				return p.checkAny(m, md, f, w2)
			}
			return p.checkMsg(m, sub, w2)
		}
		if f.IsList() {
			arr, ok := v.([]any)
			if !ok {
				return false, fmt.Sprintf("%s.%s is not a list", where, k)
			}
			for i, e := range arr {
				if ok, why := check(e, fmt.Sprintf("%s.%s[%d]", where, k, i)); !ok {
					return false, why
				}
			}
			continue
		}
		if ok, why := check(v, where+"."+k); !ok {
			return false, why
		}
	}
	return true, ""
}

func (p *payloadRefT) checkAny(m map[string]any, parent protoreflect.MessageDescriptor, f protoreflect.FieldDescriptor, where string) (bool, string) {
	url, ok := m["@type"].(string)
	if !ok {
		return false, where + " has no @type"
	}
	allowed := p.fwdURLs
	if parent.FullName() == "noble.orbiter.core.v1.Action" {
		allowed = p.actURLs
	}
	if !allowed[url] {
		return false, fmt.Sprintf("%s: type URL %q is not registered for this interface", where, url)
	}
	if len(url) == 0 || url[0] != '/' {
		return false, where + ": malformed type URL"
	}
	amd := p.msg(url[1:])
	if amd == nil {
		return false, where + ": no descriptor for " + url
	}
	rest := map[string]any{}
	for k, v := range m {
		if k != "@type" {
			rest[k] = v
		}
	}
	return p.checkMsg(rest, amd, where)
}
