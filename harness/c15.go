package simapp

// C15 — only well-formed payloads are accepted, and encoding round-trips.
// E2: (1) every payload of the public-constructor space serialises to a memo that parses back to an equal
// payload; (2) for ALL single-point mutations of the serialisations: accepted by the module's parser ⇒
// well-formed by the descriptor-driven reference predicate (and, for duplicated members, both decoders
// agree); (3) parsing is a pure function of the memo (A,B,A sequences; fresh parser instances).

import (
	"bytes"
	"fmt"
	"strings"
	"sync"
	"sync/atomic"

	"cosmossdk.io/math"
	sdk "github.com/cosmos/cosmos-sdk/types"
	gogoproto "github.com/cosmos/gogoproto/proto"

	adapterctrl "github.com/noble-assets/orbiter/v2/controller/adapter"
	orbtypes "github.com/noble-assets/orbiter/v2/types"
	acttypes "github.com/noble-assets/orbiter/v2/types/controller/action"
	fwdtypes "github.com/noble-assets/orbiter/v2/types/controller/forwarding"
	"github.com/noble-assets/orbiter/v2/types/core"
)

type c15Payload struct {
	Label string
	PW    *core.PayloadWrapper
	Memo  string
}

func (w *World) c15ConstructorSpace(full bool) ([]c15Payload, []string) {
	var out []c15Payload
	var errs []string
	passthroughs := map[string][]byte{"nil": nil, "empty": {}, "1B": {7}, "0x00": {0}, "255B": bytes.Repeat([]byte{0xfe}, 255), "nonutf8": {0xff, 0xfe, 0x00, 0x80}}
	type fw struct {
		n string
		f func(pt []byte) (*core.Forwarding, error)
	}
	var fws []fw
	for _, d := range []uint32{0, 1, 2, 4294967295} {
		for _, mr := range [][]byte{nb(32, 9), nb(20, 9), nb(33, 9), make([]byte, 32)} {
			for _, c := range [][]byte{nil, nb(32, 3), nb(20, 3), make([]byte, 32)} {
				d, mr, c := d, mr, c
				fws = append(fws, fw{fmt.Sprintf("cctp(%d,mint%dB,caller%dB)", d, len(mr), len(c)), func(pt []byte) (*core.Forwarding, error) {
					return fwdtypes.NewCCTPForwarding(d, mr, c, pt)
				}})
			}
		}
	}
	for _, d := range []uint32{1, 2, 3, 4294967295} {
		for _, hook := range [][]byte{nil, w.HookH0.Bytes()} {
			for _, meta := range []string{"", "0x", "0xabcd"} {
				for _, gas := range []math.Int{math.ZeroInt(), math.NewInt(1), sdkIntFromBig(maxU256)} {
					for _, fee := range []sdk.Coin{sdk.NewCoin(denomUSDC, math.ZeroInt()), sdk.NewCoin(denomUSDC, math.NewInt(1)), sdk.NewCoin(denomOTH, sdkIntFromBig(maxU256))} {
						d, hook, meta, gas, fee := d, hook, meta, gas, fee
						if !full && !(meta == "" || (d == 1 && hook == nil)) {
							continue
						}
						fws = append(fws, fw{fmt.Sprintf("hyp(%d,hook%dB,meta=%q,gas=%s,fee=%s)", d, len(hook), meta, trunc(gas.String(), 5), trunc(fee.String(), 8)), func(pt []byte) (*core.Forwarding, error) {
							return fwdtypes.NewHyperlaneForwarding(w.TokenT0.Bytes(), d, nb(32, 5), hook, meta, gas, fee, pt)
						}})
					}
				}
			}
		}
	}
	for _, r := range []string{w.Bob.String(), strings.ToUpper(w.Bob.String()), w.Dust.String(), moduleAddr("cctp").String()} {
		r := r
		fws = append(fws, fw{"internal(" + shortAddr(r) + ")", func(pt []byte) (*core.Forwarding, error) { return fwdtypes.NewInternalForwarding(r) }})
	}
	// fee lists: all lists of length 0..2 over a valid menu, plus one of length 5
	type fe struct {
		n string
		f func() (*acttypes.FeeInfo, error)
	}
	mkB := func(to string, b uint32) fe {
		return fe{fmt.Sprintf("bps%d>%s", b, shortAddr(to)), func() (*acttypes.FeeInfo, error) {
			t, err := acttypes.NewFeeBasisPoints(b)
			if err != nil {
				return nil, err
			}
			return acttypes.NewFeeInfo(to, t)
		}}
	}
	mkF := func(to, v string) fe {
		return fe{fmt.Sprintf("fix%s>%s", trunc(v, 6), shortAddr(to)), func() (*acttypes.FeeInfo, error) {
			t, err := acttypes.NewFeeAmount(v)
			if err != nil {
				return nil, err
			}
			return acttypes.NewFeeInfo(to, t)
		}}
	}
	menu := []fe{mkB(w.Fee1.String(), 1), mkB(w.Fee2.String(), 10000), mkF(w.Fee1.String(), "1"), mkF(w.Fee2.String(), maxUint256Str), mkF(w.Fee1.String(), "0x10"), mkB(strings.ToUpper(w.Fee1.String()), 3333)}
	var lists [][]fe
	lists = append(lists, nil)
	for _, a := range menu {
		lists = append(lists, []fe{a})
		for _, b := range menu {
			lists = append(lists, []fe{a, b})
		}
	}
	lists = append(lists, []fe{menu[0], menu[1], menu[2], menu[3], menu[5]})
	ptNames := []string{"nil", "empty", "1B", "0x00", "255B", "nonutf8"}
	for fi, f := range fws {
		for li, l := range lists {
			for pi, pn := range ptNames {
				// full cross product only in thorough; quick: vary two dimensions at a time
				if !full && !((li == 0 && pi == 0) || (fi%7 == 0 && pi == 0) || (fi%11 == 0 && li <= 1)) {
					continue
				}
				fwd, err := f.f(passthroughs[pn])
				if err != nil {
					errs = append(errs, f.n+": "+err.Error())
					break
				}
				var acts []*core.Action
				if l != nil {
					var infos []*acttypes.FeeInfo
					bad := false
					for _, e := range l {
						fi, err := e.f()
						if err != nil {
							errs = append(errs, e.n+": "+err.Error())
							bad = true
							break
						}
						infos = append(infos, fi)
					}
					if bad {
						continue
					}
					a, err := acttypes.NewFeeAction(infos...)
					if err != nil {
						errs = append(errs, "fee action: "+err.Error())
						continue
					}
					acts = append(acts, a)
				}
				pw, err := core.NewPayloadWrapper(fwd, acts...)
				if err != nil {
					errs = append(errs, "wrapper: "+err.Error())
					continue
				}
				bz, err := orbtypes.MarshalJSON(w.App.appCodec, pw)
				if err != nil {
					errs = append(errs, "marshal: "+err.Error())
					continue
				}
				var ln []string
				for _, e := range l {
					ln = append(ln, e.n)
				}
				out = append(out, c15Payload{fmt.Sprintf("%s fees=%v passthrough=%s", f.n, ln, pn), pw, string(bz)})
			}
		}
	}
	return out, errs
}

func payloadBytes(p *core.Payload) []byte {
	if p == nil {
		return nil
	}
	bz, err := gogoproto.Marshal(&core.PayloadWrapper{Orbiter: p})
	if err != nil {
		return []byte("ERR:" + err.Error())
	}
	return bz
}

func init() { register("C15", checkC15) }

func checkC15(tier string) *Report {
	rep := NewReport("C15", tier, "exploration")
	full := tier == "thorough"
	rep.Rule = "constructor space: forwarding constructors over valid attribute menus × fee lists of length 0..2 (+ one of 5) × 6 passthrough byte strings (quick: two dimensions varied at a time; thorough: full product) — round trip on each; mutation space: ALL single-point mutations of a covering subset of the serialisations — accepted ⇒ well-formed; purity on A,B,A sequences. Non-trivial = distinct mutated memos accepted by the parser + distinct constructor payloads"
	rep.Assumptions = []string{
		"well-formedness is judged by the descriptor-driven reference predicate (payloadref.go) with the proto3-JSON leniency rules listed in DESIGN §3 C15",
		"payload equality is equality of the deterministic protobuf encoding",
	}
	w, err := NewWorld()
	if err != nil {
		rep.HarnessError("fixture: %v", err)
		return rep
	}
	pref, err := w.newPayloadRef()
	if err != nil {
		rep.HarnessError("payloadRef: %v", err)
		return rep
	}
	parser, err := adapterctrl.NewIBCParser(w.App.appCodec)
	if err != nil {
		rep.HarnessError("parser: %v", err)
		return rep
	}
	parse := func(p *adapterctrl.IBCParser, memo string) (pl *core.Payload, perr error, pan any) {
		defer func() { pan = recover() }()
		pl, perr = p.ParsePayload([]byte(memo))
		return
	}
	space, cerrs := w.c15ConstructorSpace(full)
	rep.Extra["constructor_payloads"] = len(space)
	rep.Extra["constructor_rejections"] = len(cerrs)
	stateBefore := w.StateKey(w.Ctx)
	// (1) round trip
	for i, c := range space {
		rep.Count("evaluations", 1)
		pl, perr, pan := parse(parser, c.Memo)
		sig := "roundtrip " + c.Label
		replay := mustJSON(map[string]any{"memo": c.Memo})
		if pan != nil {
			rep.Violate(Violation{Kind: "panic", Group: "roundtrip", Sig: sig, Replay: replay, What: fmt.Sprintf("parser panicked on a constructor-built memo: %v [%s]", pan, c.Label)})
			continue
		}
		if perr != nil {
			rep.Violate(Violation{Kind: "constructor-memo-rejected", Group: "roundtrip", Sig: sig, Replay: replay, What: fmt.Sprintf("memo built through the public constructors does not parse: %v [%s] memo=%s", perr, c.Label, trunc(c.Memo, 300))})
			continue
		}
		if !bytes.Equal(payloadBytes(pl), payloadBytes(c.PW.Orbiter)) {
			rep.Violate(Violation{Kind: "round-trip-not-equal", Group: "roundtrip", Sig: sig, Replay: replay, What: fmt.Sprintf("Parse(Marshal(p)) != p for %s: memo=%s", c.Label, trunc(c.Memo, 300))})
			continue
		}
		if err := pl.Validate(); err != nil {
			rep.Violate(Violation{Kind: "round-trip-invalid", Group: "roundtrip", Sig: sig, Replay: replay, What: fmt.Sprintf("parsed payload does not validate: %v [%s]", err, c.Label)})
			continue
		}
		if ok, why := pref.WellFormed(c.Memo); !ok {
			rep.HarnessError("reference predicate rejects a constructor-built memo (%s): %s", why, trunc(c.Memo, 300))
			continue
		}
		rep.Outcome("round-trip-ok")
		rep.Distinct("ctor:" + c.Label)
		rep.Count("traces_validated_against_impl", 1)
		if i%(len(space)/6+1) == 0 {
			rep.Sample(map[string]any{"constructor_payload": c.Label, "memo": trunc(c.Memo, 260)})
		}
	}
	// (2) accepted => well-formed over all single mutations of a covering subset
	var subset []c15Payload
	seenKind := map[string]int{}
	maxPer := 3
	if full {
		maxPer = 12
	}
	for _, c := range space {
		kind := c.Label[:strings.Index(c.Label, "(")] + fmt.Sprint(strings.Count(c.Label, ">"))
		if seenKind[kind] < maxPer {
			seenKind[kind]++
			subset = append(subset, c)
		}
	}
	// ... and the same serialisations with every member under its SECOND JSON name (camelCase): single-point mutations of
	// these reach what needs "the other spelling AND something else" on the module's own (snake_case) output
	for _, c := range append([]c15Payload{}, subset...) {
		if strings.Contains(c.Memo, "fees_info") || strings.Contains(c.Memo, "pre_actions") || len(subset) < 60 {
			cc := c
			cc.Label = c.Label + " [camelCase]"
			cc.Memo = camelCaseMemo(c.Memo)
			if cc.Memo != c.Memo {
				subset = append(subset, cc)
			}
		}
	}
	rep.Extra["mutated_payloads"] = len(subset)
	_ = w.payloadSeeds() // sets the mutator's corpus of known members
	var nmA int64
	var swg sync.WaitGroup
	sem := make(chan struct{}, numWorkers())
	for _, c := range subset {
		c := c
		swg.Add(1)
		sem <- struct{}{}
		go func() {
			defer func() { <-sem; swg.Done() }()
			parser, _ := adapterctrl.NewIBCParser(w.App.appCodec) // one parser per worker goroutine
			nm := 0
			defer func() { atomic.AddInt64(&nmA, int64(nm)) }()
			tree, err := jparse(c.Memo)
			if err != nil {
				rep.HarnessError("cannot parse own memo: %v", err)
				return
			}
			for _, m := range SingleMutations(tree, allTypeURLs, allEnumNames) {
				memo, ok := applyMutations(tree, m)
				if !ok {
					continue
				}
				nm++
				rep.Count("evaluations", 1)
				pl, perr, pan := parse(parser, memo)
				sig := "mutation " + trunc(c.Label, 80) + " :: " + m.Name
				replay := mustJSON(map[string]any{"memo": memo})
				if pan != nil {
					rep.Violate(Violation{Kind: "panic", Group: "mutation", Sig: sig, Replay: replay, What: fmt.Sprintf("parser panicked: %v on %s", pan, trunc(memo, 400))})
					continue
				}
				// (3a) purity of the VERDICT and of the payload under repetition. Decoders that collect the members of an
				// object into a Go map decide ambiguous documents by iteration order; with two candidates the minority
				// order shows up with p = 1/8 per parse, so documents of the ambiguous kinds (a known member added next to
				// the ones present, a second spelling of a member) are parsed 64 times (miss probability (7/8)^63 ≈ 2·10⁻⁴ per
				// document, and every such defect shows in several documents), all others 3 times
				reps := 2
				if strings.Contains(m.Name, " +known-member ") || strings.Contains(m.Name, " +alias-") || strings.Contains(m.Name, " dup-") {
					reps = 63
				}
				impure := false
				for k := 0; k < reps && !impure; k++ {
					plK, perrK, _ := parse(parser, memo)
					rep.Count("purity_reparses", 1)
					if (perrK == nil) != (perr == nil) || (perr == nil && !bytes.Equal(payloadBytes(pl), payloadBytes(plK))) {
						impure = true
						rep.Violate(Violation{Kind: "parse-not-pure", Group: "purity", Sig: sig, Replay: replay,
							What: fmt.Sprintf("parsing the same memo repeatedly gives different results (accepted=%v then accepted=%v, or different payloads): %s", perr == nil, perrK == nil, trunc(memo, 400))})
					}
				}
				if impure {
					continue
				}
				if perr != nil {
					rep.Outcome("mutant-rejected")
					continue
				}
				rep.Outcome("mutant-accepted")
				rep.Distinct("acc:" + memo)
				if ok, why := pref.WellFormed(memo); !ok {
					rep.Violate(Violation{Kind: "accepted-but-not-well-formed", Group: m.Name[strings.LastIndex(m.Name, " ")+1:], Sig: sig, Replay: replay,
						What: fmt.Sprintf("parser accepts a memo that is not well-formed (%s): %s  [%s]", why, trunc(memo, 500), m.Name)})
					continue
				}
				// duplicated members: the accepted value must be the one a last-member-wins reader sees
				if strings.Contains(m.Name, " dup-") {
					dedup := dedupLastWins(memo)
					pl2, perr2, _ := parse(parser, dedup)
					if perr2 != nil || !bytes.Equal(payloadBytes(pl), payloadBytes(pl2)) {
						rep.Violate(Violation{Kind: "decoders-disagree-on-duplicate-member", Group: "dup", Sig: sig, Replay: replay,
							What: fmt.Sprintf("memo with a duplicated member is accepted as a different payload than its last-member-wins reading (err=%v): %s", perr2, trunc(memo, 400))})
					}
				}
				// (3) purity: same memo again on a FRESH parser, after other memos on the shared parser
				parse(parser, c.Memo)
				parse(parser, `{"orbiter":{}}`)
				plA, perrA, _ := parse(parser, memo)
				fresh, _ := adapterctrl.NewIBCParser(w.App.appCodec)
				plB, perrB, _ := parse(fresh, memo)
				if perrA != nil || perrB != nil || !bytes.Equal(payloadBytes(pl), payloadBytes(plA)) || !bytes.Equal(payloadBytes(pl), payloadBytes(plB)) {
					rep.Violate(Violation{Kind: "parse-not-pure", Group: "purity", Sig: sig, Replay: replay, What: "parsing the same memo again (after other memos / on a fresh parser) gives a different result: " + trunc(memo, 300)})
				}
			}
		}()
	}
	swg.Wait()
	nm := int(nmA)
	rep.Extra["mutations"] = nm
	if w.StateKey(w.Ctx) != stateBefore {
		rep.Violate(Violation{Kind: "parse-changed-state", Sig: "state", Replay: mustJSON("state"), What: "parsing changed chain state"})
	}
	// root-level acceptance criteria on hand-written documents
	valid := Memo(w.FwdInternal(w.Bob), nil)
	inner := valid[len(`{"orbiter":`) : len(valid)-1]
	for _, doc := range []string{
		`{"orbiter":` + inner + `,"other":1}`, `{"other":1,"orbiter":` + inner + `}`, `{"Orbiter":` + inner + `}`, `{"orbiter ":` + inner + `}`, `[` + valid + `]`,
		`{"orbiter":` + inner + `,"orbiter":` + inner + `}`, `{"orbiter":null,"orbiter":` + inner + `}`, `{"orbiter":` + inner + `,"orbiter":null}`,
		valid + valid, valid + " x", " \n" + valid + "\n ", `{"orbiter":` + inner + `,"":0}`, "\ufeff" + valid,
	} {
		rep.Count("evaluations", 1)
		pl, perr, pan := parse(parser, doc)
		wf, why := pref.WellFormed(doc)
		if pan != nil {
			rep.Violate(Violation{Kind: "panic", Group: "root", Sig: "root " + doc, Replay: mustJSON(map[string]any{"memo": doc}), What: fmt.Sprintf("parser panicked: %v", pan)})
			continue
		}
		if perr == nil && !wf {
			rep.Violate(Violation{Kind: "accepted-but-not-well-formed", Group: "root", Sig: "root " + doc, Replay: mustJSON(map[string]any{"memo": doc}),
				What: fmt.Sprintf("parser accepts a memo that is not well-formed (%s): %s", why, trunc(doc, 400))})
		}
		if perr == nil && wf {
			if dd := dedupLastWins(doc); dd != "" {
				if pl2, perr2, _ := parse(parser, dd); perr2 != nil || !bytes.Equal(payloadBytes(pl), payloadBytes(pl2)) {
					rep.Violate(Violation{Kind: "decoders-disagree-on-duplicate-member", Group: "root", Sig: "root " + doc, Replay: mustJSON(map[string]any{"memo": doc}), What: "duplicate root member read differently by the two decoders: " + trunc(doc, 300)})
				}
			}
			rep.Outcome("root-doc-accepted")
		} else {
			rep.Outcome("root-doc-rejected")
		}
	}
	rep.Guard(rep.Outcomes["round-trip-ok"] > 100 && rep.Outcomes["mutant-accepted"] > 100 && rep.Outcomes["mutant-rejected"] > 1000, "outcome classes missing: %v", rep.Outcomes)
	return rep
}

// dedupLastWins re-serialises a JSON document keeping, for duplicated members, only the last one.
func dedupLastWins(doc string) string {
	t, err := jparse(doc)
	if err != nil {
		return ""
	}
	var rec func(n *jnode)
	rec = func(n *jnode) {
		if n.K == jObj {
			last := map[string]int{}
			for i, k := range n.Keys {
				last[k] = i
			}
			var ks []string
			var kids []*jnode
			for i, k := range n.Keys {
				if last[k] == i {
					ks = append(ks, k)
					kids = append(kids, n.Kids[i])
				}
			}
			n.Keys, n.Kids = ks, kids
		}
		for _, k := range n.Kids {
			rec(k)
		}
	}
	rec(t)
	return t.String()
}

func adapterctrlNewParser(w *World) (*adapterctrl.IBCParser, error) {
	return adapterctrl.NewIBCParser(w.App.appCodec)
}
