package simapp

// replay.go — `bin/check --replay <file>`: executes the operation list of a violation file on a fresh
// application WITHOUT the explorer (a plain sequential loop) and prints what each step observed,
// then evaluates the simple post-conditions recorded in the file.

import (
	"encoding/json"
	"fmt"
	"os"

	sdk "github.com/cosmos/cosmos-sdk/types"
)

type replayDoc struct {
	Ops    []Op           `json:"ops"`
	Expect []replayExpect `json:"expect,omitempty"`
	// other artefact kinds
	Memo      *string         `json:"memo,omitempty"`      // C15: parser acceptance vs reference predicate
	Genesis   json.RawMessage `json:"genesis,omitempty"`   // C17: ValidateGenesis => InitGenesis
	Amount    string          `json:"amount,omitempty"`    // C04 pure level
	Fees      []FeeSpec       `json:"fees,omitempty"`
	FaultPlan []string        `json:"fault_plan,omitempty"` // C03: "<index>:<site>"
	InnerMode string          `json:"inner_mode,omitempty"`
	Stray     int64           `json:"stray,omitempty"`
	// real-envelope artefacts (loop.go)
	RealPathData []byte `json:"real_path_data,omitempty"` // one packet through the real receive path
	Loop         string `json:"loop,omitempty"`           // a step of the real block history (the history is re-run)
	Restart      string `json:"restart,omitempty"`        // a stage of the chain-restart check (re-run)
}

type replayExpect struct {
	Kind string `json:"kind"` // last_success | orb_not_increased | no_panic
	Want bool   `json:"want"`
}

func runReplay(path string) int {
	bz, err := os.ReadFile(path)
	if err != nil {
		fmt.Println("HARNESS-ERROR cannot read replay:", err)
		return 2
	}
	var v Violation
	if err := json.Unmarshal(bz, &v); err != nil {
		fmt.Println("HARNESS-ERROR bad replay file:", err)
		return 2
	}
	var doc replayDoc
	if err := json.Unmarshal(v.Replay, &doc); err != nil {
		fmt.Println("HARNESS-ERROR bad replay body:", err)
		return 2
	}
	if doc.RealPathData != nil || doc.Loop != "" || doc.Restart != "" {
		return replayReal(v, doc, path)
	}
	w, err := NewWorld()
	if err != nil {
		fmt.Println("HARNESS-ERROR fixture:", err)
		return 2
	}
	fmt.Printf("replaying %s (%s): %s\n", v.Property, v.Kind, trunc(v.What, 600))
	if code, handled := replaySpecial(w, v, doc, path); handled {
		return code
	}
	ctx := Branch(w.Ctx)
	var last OpResult
	var orbBefore, orbAfter sdk.Coins
	anyPanic := false
	for i, op := range doc.Ops {
		orbBefore = w.App.BankKeeper.GetAllBalances(ctx, w.Orb)
		last = w.Apply(ctx, op)
		orbAfter = w.App.BankKeeper.GetAllBalances(ctx, w.Orb)
		switch {
		case last.Recv != nil:
			fmt.Printf("  [%d] %s\n      -> success=%v written=%v panic=%q ack=%s\n      orbiter balance %s -> %s\n", i, op.Label, last.Recv.Success, last.Recv.Written, last.Recv.Panic, string(last.Recv.Ack), orbBefore, orbAfter)
			if last.Recv.Panic != "" {
				anyPanic = true
			}
		case last.Msg != nil:
			fmt.Printf("  [%d] %s\n      -> ok=%v err=%q panic=%q\n", i, op.Label, last.Msg.OK, last.Msg.Err, last.Msg.Panic)
			if last.Msg.Panic != "" {
				anyPanic = true
			}
		default:
			fmt.Printf("  [%d] %s -> err=%q\n", i, op.Label, last.Err)
		}
	}
	ps, _ := w.QPausedProtocols(ctx)
	fmt.Printf("  final: paused protocols=%v state=%s\n", ps, w.StateKey(ctx))
	code := 0
	for _, e := range doc.Expect {
		var got bool
		switch e.Kind {
		case "last_success":
			got = last.Succeeded()
		case "orb_not_increased":
			got = orbAfter.IsAllLTE(orbBefore)
		case "no_panic":
			got = !anyPanic
		default:
			continue
		}
		if got != e.Want {
			fmt.Printf("VIOLATION property=%s replay=%s (post-condition %s: want %v got %v)\n", v.Property, path, e.Kind, e.Want, got)
			code = 1
		}
	}
	if code == 0 {
		fmt.Println("replay finished; recorded post-conditions hold (or none recorded)")
	}
	return code
}

// replaySpecial re-evaluates the non-operation-list artefacts (plain sequential code, no explorer).
func replaySpecial(w *World, v Violation, doc replayDoc, path string) (int, bool) {
	viol := func(msg string) int {
		fmt.Printf("VIOLATION property=%s replay=%s (%s)\n", v.Property, path, msg)
		return 1
	}
	switch {
	case doc.Memo != nil:
		parser, err := adapterctrlNewParser(w)
		if err != nil {
			fmt.Println("HARNESS-ERROR", err)
			return 2, true
		}
		pref, err := w.newPayloadRef()
		if err != nil {
			fmt.Println("HARNESS-ERROR", err)
			return 2, true
		}
		var perr error
		var pan any
		func() {
			defer func() { pan = recover() }()
			_, perr = parser.ParsePayload([]byte(*doc.Memo))
		}()
		wf, why := pref.WellFormed(*doc.Memo)
		fmt.Printf("  memo: %s\n  parser: err=%v panic=%v\n  reference predicate: well-formed=%v %s\n", trunc(*doc.Memo, 600), perr, pan, wf, why)
		if pan != nil {
			return viol("parser panics"), true
		}
		if perr == nil && !wf {
			return viol("accepted but not well-formed: " + why), true
		}
		fmt.Println("replay finished; the parser's verdict agrees with the reference predicate")
		return 0, true
	case len(doc.Genesis) > 0:
		om, err := w.orbiterModule()
		if err != nil {
			fmt.Println("HARNESS-ERROR", err)
			return 2, true
		}
		var verr error
		var vpan, ipan any
		func() {
			defer func() { vpan = recover() }()
			verr = om.ValidateGenesis(w.App.appCodec, nil, doc.Genesis)
		}()
		fmt.Printf("  ValidateGenesis: err=%v panic=%v\n", verr, vpan)
		if vpan != nil {
			return viol("ValidateGenesis panics"), true
		}
		if verr != nil {
			fmt.Println("replay finished; the document is rejected by validation")
			return 0, true
		}
		b := Branch(w.Ctx)
		w.wipeOrbiterStore(b)
		func() {
			defer func() { ipan = recover() }()
			om.InitGenesis(b, w.App.appCodec, doc.Genesis)
		}()
		fmt.Printf("  InitGenesis: panic=%v\n", ipan)
		if ipan != nil {
			return viol("validated genesis cannot be initialised"), true
		}
		if _, _, problem := w.genesisRoundTrip(b); problem != "" {
			return viol("state from validated genesis does not round-trip: " + problem), true
		}
		fmt.Println("replay finished; validated, initialised and round-trips")
		return 0, true
	case doc.Amount != "":
		A, ok := parseIntLikeSDK(doc.Amount)
		if !ok {
			fmt.Println("HARNESS-ERROR bad amount")
			return 2, true
		}
		rep := NewReport(v.Property, "quick", "exploration")
		bank := &recBank{}
		fc, err := newFeeController(bank)
		if err != nil {
			fmt.Println("HARNESS-ERROR", err)
			return 2, true
		}
		var shapes []feeShape
		for _, f := range doc.Fees {
			shapes = append(shapes, feeShape{Name: f.String(), To: f.To, Bps: f.Bps, Fix: f.Fixed, IsFx: f.IsFixed()})
		}
		c04Pure(rep, w, fc, bank, Branch(w.Ctx), A, shapes)
		fmt.Printf("  amount=%s fees=%v\n  sends recorded: %v\n  reference: %+v\n", A, doc.Fees, bank.sends, feeRef(A, doc.Fees))
		if rep.NumViolations() > 0 {
			return viol(rep.Violations[0].Kind + ": " + trunc(rep.Violations[0].What, 300)), true
		}
		fmt.Println("replay finished; the fee action agrees with the reference")
		return 0, true
	case len(doc.FaultPlan) > 0 && len(doc.Ops) == 1 && doc.Ops[0].Pkt != nil:
		in, err := NewInstr(w, true)
		if err != nil {
			fmt.Println("HARNESS-ERROR", err)
			return 2, true
		}
		ctx := Branch(w.Ctx)
		if doc.Stray > 0 {
			_ = w.Deposit(ctx, w.Orb, denomUSDC, doc.Stray)
		}
		plan := map[int]bool{}
		for _, p := range doc.FaultPlan {
			var i int
			fmt.Sscanf(p, "%d:", &i)
			plan[i] = true
		}
		ref := Branch(ctx)
		in.Recv(ref, *doc.Ops[0].Pkt, nil, "")
		refLedger := w.Snapshot(ref)
		b := Branch(ctx)
		r := in.Recv(b, *doc.Ops[0].Pkt, plan, doc.InnerMode)
		var faulted []string
		for _, c := range in.Rec.Calls {
			if c.Faulted {
				faulted = append(faulted, c.Site)
			}
		}
		bal, sup := LedgerDelta(refLedger, w.Snapshot(b))
		fmt.Printf("  plan=%v mode=%s faulted=%v\n  -> success=%v panic=%q ack=%s\n  ledger vs fault-free run: bal=%s supply=%s\n", doc.FaultPlan, doc.InnerMode, faulted, r.Success, r.Panic, trunc(string(r.Ack), 300), bal, sup)
		if r.Panic != "" {
			return viol("panic under fault"), true
		}
		if r.Success {
			tol := true
			for _, s := range faulted {
				if !toleratedSite(s) {
					tol = false
				}
			}
			if len(bal) != 0 || len(sup) != 0 {
				return viol("success acknowledgement but fund movements incomplete"), true
			}
			if !tol && len(faulted) > 0 {
				return viol("success acknowledgement despite a failed step"), true
			}
		}
		fmt.Println("replay finished; error acknowledgement (or tolerated fault) as required")
		return 0, true
	}
	return 0, false
}


// replayReal re-executes the real-envelope artefacts: one packet through the real receive path, or the whole real block
// history / chain-restart check (they are deterministic linear histories; the step named in the file is looked up in
// the re-run's own findings).
func replayReal(v Violation, doc replayDoc, path string) int {
	fmt.Printf("replaying %s (%s): %s\n", v.Property, v.Kind, trunc(v.What, 600))
	switch {
	case doc.RealPathData != nil:
		lw, err := NewLoopWorld()
		if err != nil {
			fmt.Println("HARNESS-ERROR fixture:", err)
			return 2
		}
		o, err := lw.RunStep(LoopStep{Label: "replay", Raw: doc.RealPathData})
		if err != nil {
			fmt.Println("HARNESS-ERROR", err)
			return 2
		}
		fmt.Printf("  MsgRecvPacket tx code=%d log=%q\n  ack (real)     = %s\n  ack (emulated) = %s panic=%q\n  mismatches: %v\n", o.RecvCode, trunc(o.RecvLog, 300), o.Ack, o.EmuAck, o.EmuPanic, o.Mismatch)
		if o.RecvCode != 0 || len(o.Ack) == 0 {
			fmt.Printf("VIOLATION property=%s replay=%s (the receive transaction failed or no acknowledgement was written)\n", v.Property, path)
			return 1
		}
		fmt.Println("replay finished; the transaction succeeded and an acknowledgement was written")
		return 0
	default:
		rep := NewReport(v.Property, "quick", "replay")
		var err error
		if doc.Restart != "" {
			err = loopRestartCheck(rep, false)
		} else if v.Property == "C19" {
			a, e1 := loopRun(nil, false)
			b, e2 := loopRun(nil, false)
			if e1 != nil || e2 != nil {
				err = fmt.Errorf("%v %v", e1, e2)
			}
			for i := range a {
				if i < len(b) && a[i] != b[i] {
					rep.Violate(Violation{Kind: "real-block-history-differs", Sig: a[i], What: "line " + fmt.Sprint(i) + ":\n  " + a[i] + "\n  " + b[i], Replay: mustJSON("loop")})
					break
				}
			}
		} else {
			_, err = loopRun(rep, false)
		}
		if err != nil {
			fmt.Println("HARNESS-ERROR", err)
			return 2
		}
		code := 0
		for _, x := range rep.Violations {
			fmt.Printf("  re-run finding: %s :: %s\n", x.Kind, trunc(x.What, 500))
			code = 1
		}
		if code == 1 {
			fmt.Printf("VIOLATION property=%s replay=%s (the re-run of the real block history reports the findings above)\n", v.Property, path)
		} else {
			fmt.Println("replay finished; the re-run of the real block history reports nothing")
		}
		return code
	}
}
