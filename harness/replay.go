package simapp

// replay.go — `bin/check --replay <file>`: executes the operation list of a violation file on a fresh
// application WITHOUT the explorer (a plain sequential loop) and prints what each step observed,
// then evaluates the simple post-conditions recorded in the file.

import (
	"encoding/json"
	"fmt"
	"os"

	sdk "github.com/cosmos/cosmos-sdk/types"
)

type replayDoc struct {
	Ops    []Op           `json:"ops"`
	Expect []replayExpect `json:"expect,omitempty"`
}

type replayExpect struct {
	Kind string `json:"kind"` // last_success | orb_not_increased | no_panic
	Want bool   `json:"want"`
}

func runReplay(path string) int {
	bz, err := os.ReadFile(path)
	if err != nil {
		fmt.Println("HARNESS-ERROR cannot read replay:", err)
		return 2
	}
	var v Violation
	if err := json.Unmarshal(bz, &v); err != nil {
		fmt.Println("HARNESS-ERROR bad replay file:", err)
		return 2
	}
	var doc replayDoc
	if err := json.Unmarshal(v.Replay, &doc); err != nil {
		fmt.Println("HARNESS-ERROR bad replay body:", err)
		return 2
	}
	w, err := NewWorld()
	if err != nil {
		fmt.Println("HARNESS-ERROR fixture:", err)
		return 2
	}
	fmt.Printf("replaying %s (%s): %s\n", v.Property, v.Kind, v.What)
	ctx := Branch(w.Ctx)
	var last OpResult
	var orbBefore, orbAfter sdk.Coins
	anyPanic := false
	for i, op := range doc.Ops {
		orbBefore = w.App.BankKeeper.GetAllBalances(ctx, w.Orb)
		last = w.Apply(ctx, op)
		orbAfter = w.App.BankKeeper.GetAllBalances(ctx, w.Orb)
		switch {
		case last.Recv != nil:
			fmt.Printf("  [%d] %s\n      -> success=%v written=%v panic=%q ack=%s\n      orbiter balance %s -> %s\n", i, op.Label, last.Recv.Success, last.Recv.Written, last.Recv.Panic, string(last.Recv.Ack), orbBefore, orbAfter)
			if last.Recv.Panic != "" {
				anyPanic = true
			}
		case last.Msg != nil:
			fmt.Printf("  [%d] %s\n      -> ok=%v err=%q panic=%q\n", i, op.Label, last.Msg.OK, last.Msg.Err, last.Msg.Panic)
			if last.Msg.Panic != "" {
				anyPanic = true
			}
		default:
			fmt.Printf("  [%d] %s -> err=%q\n", i, op.Label, last.Err)
		}
	}
	ps, _ := w.QPausedProtocols(ctx)
	fmt.Printf("  final: paused protocols=%v state=%s\n", ps, w.StateKey(ctx))
	code := 0
	for _, e := range doc.Expect {
		var got bool
		switch e.Kind {
		case "last_success":
			got = last.Succeeded()
		case "orb_not_increased":
			got = orbAfter.IsAllLTE(orbBefore)
		case "no_panic":
			got = !anyPanic
		default:
			continue
		}
		if got != e.Want {
			fmt.Printf("VIOLATION property=%s replay=%s (post-condition %s: want %v got %v)\n", v.Property, path, e.Kind, e.Want, got)
			code = 1
		}
	}
	if code == 0 {
		fmt.Println("replay finished; recorded post-conditions hold (or none recorded)")
	}
	return code
}
