package simapp

// main.go — entry point of the verification binary. Compiled INTO package simapp through
// `go test -overlay` (no file is added to /repo). Selected by environment:
//   VERIF_PROP=<id> VERIF_TIER=quick|thorough VERIF_DIR=/verif [VERIF_REPLAY=<file>]

import (
	"fmt"
	"os"
	"sort"
	"testing"
)

type checkFn func(tier string) *Report

var checks = map[string]checkFn{}

func register(id string, f checkFn) { checks[id] = f }

func TestVerif(t *testing.T) {
	prop := os.Getenv("VERIF_PROP")
	if prop == "" {
		t.Skip("VERIF_PROP not set")
	}
	tier := os.Getenv("VERIF_TIER")
	if tier == "" {
		tier = "quick"
	}
	dir := os.Getenv("VERIF_DIR")
	if dir == "" {
		dir = "/verif"
	}
	if rp := os.Getenv("VERIF_REPLAY"); rp != "" {
		os.Exit(runReplay(rp))
	}
	if prop == "list" {
		ids := []string{}
		for id := range checks {
			ids = append(ids, id)
		}
		sort.Strings(ids)
		fmt.Println(ids)
		os.Exit(0)
	}
	f, ok := checks[prop]
	if !ok {
		fmt.Printf("HARNESS-ERROR unknown property %q\n", prop)
		os.Exit(2)
	}
	var rep *Report
	func() {
		defer func() {
			if r := recover(); r != nil {
				fmt.Printf("HARNESS-ERROR property=%s harness panic: %v\n", prop, r)
				panic(r)
			}
		}()
		rep = f(tier)
	}()
	rc := rep.Finish(dir)
	if os.Getenv("VERIF_NO_EXIT") != "" {
		// coverage runs (tools/coverage.sh): the test has to return for the profile to be written
		if rc != 0 {
			t.Errorf("check exited with %d", rc)
		}
		return
	}
	os.Exit(rc)
}
