package simapp

// C11 — coins already on the orbiter account never alter, fund or block a transfer.
// E4 (paired, metamorphic runs) over all states of an E1 exploration: the same transfer is run on the
// state as it is and on the state plus a set of direct deposits to the orbiter account; everything a
// user can observe must be equal, the transferred denom's stray balance must end on the dust collector
// and the other denominations must stay where they are.

import (
	"bytes"
	"fmt"
	"math/big"
	"sort"
	"strings"

	sdk "github.com/cosmos/cosmos-sdk/types"
)

type depositSet map[string]int64 // denom -> amount ("D" stands for the transferred denom)

func (d depositSet) String() string {
	var ks []string
	for k, v := range d {
		ks = append(ks, fmt.Sprintf("%s:%d", k, v))
	}
	sort.Strings(ks)
	return "{" + strings.Join(ks, ",") + "}"
}

type c11Transfer struct {
	Label string
	Spec  TransferSpec
}

func (w *World) c11Transfers(full bool) []c11Transfer {
	orb := w.Orb.String()
	var out []c11Transfer
	pt := func(f Fwd) Fwd { f.Passthrough = []byte{1, 2, 3}; return f }
	fwds := []Fwd{w.FwdCCTP(0), w.FwdCCTPCaller(1), w.FwdHyp(1), w.FwdInternal(w.Bob),
		pt(w.FwdCCTP(0)), pt(w.FwdHyp(1)), pt(w.FwdInternal(w.Bob)),
		w.FwdHypIGP("500uigp"), w.FwdHypIGP("0uusdc"), w.FwdHypIGP("5uusdc"),
		w.FwdHyp(3), w.FwdInternal(w.Dust),
		// the ORDINARY token and mailbox, but the sender names a gas paymaster as custom hook (anybody can create one and
		// claim what it collects) and a max fee in a denomination other than the transferred one
		{Kind: "hyp", Tag: "hypCustomIGP(maxfee=500uigp)", Domain: 1, Token: w.TokenT0.Bytes(), Recipient: b32(5), Hook: w.IgpI1.Bytes(), GasLimit: "0", MaxFee: "500uigp"},
		{Kind: "hyp", Tag: "hypCustomIGP(maxfee=5000uigp,gas=1)", Domain: 1, Token: w.TokenT0.Bytes(), Recipient: b32(5), Hook: w.IgpI1.Bytes(), GasLimit: "1", MaxFee: "5000uigp"},
		{Kind: "hyp", Tag: "hypCustomIGP(maxfee=7uother)", Domain: 1, Token: w.TokenT0.Bytes(), Recipient: b32(5), Hook: w.IgpI1.Bytes(), GasLimit: "0", MaxFee: "7uother"},
		{Kind: "hyp", Tag: "hyp(1,maxfee=7uother)", Domain: 1, Token: w.TokenT0.Bytes(), Recipient: b32(5), GasLimit: "0", MaxFee: "7uother"},
		{Kind: "hyp", Tag: "hyp(1,maxfee=7uusdc)", Domain: 1, Token: w.TokenT0.Bytes(), Recipient: b32(5), GasLimit: "0", MaxFee: "7uusdc"}}
	fees := w.feeMenu()[:3]
	amts := []string{"1000", "1"}
	if full {
		amts = append(amts, "10001", fmt.Sprint(burnLimit+1))
		fees = w.feeMenu()
	}
	for _, f := range fwds {
		for fi, fe := range fees {
			for _, a := range amts {
				t := TransferSpec{"channel-0", denomUSDC, a, orb, f, fe}
				pl := ""
				if f.Passthrough != nil {
					pl = "+passthrough"
				}
				out = append(out, c11Transfer{fmt.Sprintf("%s%s/fee%d amt=%s %s", f, pl, fi, a, denomUSDC), t})
			}
		}
	}
	// another denom and channel through the internal route
	for fi, fe := range fees {
		out = append(out, c11Transfer{fmt.Sprintf("internal(bob)/fee%d amt=10001 uother ch1", fi), TransferSpec{"channel-1", denomOTH, "10001", orb, w.FwdInternal(w.Bob), fe}})
	}
	// the 18-decimal style denomination (stray and dust balances there reach the 64-bit edge in the prefix histories)
	for fi, fe := range fees {
		out = append(out, c11Transfer{fmt.Sprintf("internal(bob)/fee%d amt=2500000 %s", fi, denomBIG2), TransferSpec{"channel-0", denomBIG2, "2500000", orb, w.FwdInternal(w.Bob), fe}})
	}
	out = append(out, c11Transfer{"cctp(0) over burn limit", TransferSpec{"channel-0", denomUSDC, fmt.Sprint(burnLimit + 1), orb, w.FwdCCTP(0), nil}})
	return out
}

func c11Deposits(full bool) []depositSet {
	ds := []depositSet{{"D": 1}, {"D": -1 /* = A */}, {"D": -2 /* = A+1 */}, {denomOTH: 7}, {denomIGP: 5000}, {"D": 1, denomOTH: 7, denomIGP: 5000}}
	if full {
		ds = append(ds, depositSet{"D": -1, denomOTH: 7}, depositSet{"D": -2, denomIGP: 5000}, depositSet{denomOTH: 7, denomIGP: 5000},
			depositSet{"D": 1, denomOTH: 7}, depositSet{"D": 1, denomIGP: 5000}, depositSet{"D": 1_000_000_000})
	}
	return ds
}

func init() { register("C11", checkC11) }

func checkC11(tier string) *Report {
	rep := NewReport("C11", tier, "model_checking")
	rep.Rule = "every (reached state, deposit set, transfer) triple is executed as a pair of runs on two branches of the same state; non-trivial when the transfer succeeded in at least one of the two runs"
	rep.Assumptions = []string{
		"IBC core discard-on-error and baseapp rollback emulated (DESIGN §1.3)",
		"states: all distinct states reachable by <=D operations of the C01 prefix alphabet (which itself contains deposits, so 'left by earlier history' is covered)",
	}
	worlds, err := buildWorlds(numWorkers())
	if err != nil {
		rep.HarnessError("fixture: %v", err)
		return rep
	}
	w0 := worlds[0]
	alpha, _ := w0.ledgerPrefix()
	depth := 2
	full := tier == "thorough"
	transfers := w0.c11Transfers(full)
	deposits := c11Deposits(full)
	rep.Extra["transfers"] = len(transfers)
	rep.Extra["deposit_sets"] = len(deposits)

	x := &Explorer{Rep: rep, Prefix: alpha, Depth: depth, Budget: budgetFromEnv(map[string]int{"quick": 8, "thorough": 60}[tier])}
	x.OnState = func(wk *Worker, n Node, ctx sdk.Context, _ any) {
		w := wk.W
		path := pathLabels(alpha, n.Path)
		s0 := w.Snapshot(ctx)
		for ti := range transfers {
			t := transfers[ti]
			pkt := t.Spec.Pkt()
			A, _ := parseIntLikeSDK(t.Spec.Amount)
			D := t.Spec.Base
			// run 1: the state as it is
			b1 := Branch(ctx)
			r1 := w.Recv(b1, pkt)
			a1 := w.Snapshot(b1)
			bal1, sup1 := LedgerDelta(s0, a1)
			st1, _ := w.exportedStats(b1, nil)
			for _, dep := range deposits {
				rep.Count("pairs", 1)
				b2 := Branch(ctx)
				P := map[string]*big.Int{}
				var depOps []Op
				depFailed := false
				for dn, amt := range dep {
					denom := dn
					if dn == "D" {
						denom = D
					}
					v := big.NewInt(amt)
					if amt == -1 {
						v = new(big.Int).Set(A)
					} else if amt == -2 {
						v = new(big.Int).Add(A, big.NewInt(1))
					}
					if !v.IsInt64() {
						continue
					}
					if err := w.Deposit(b2, w.Orb, denom, v.Int64()); err != nil {
						depFailed = true // nobody can deposit this denom in this state (e.g. token factory paused)
						break
					}
					depOps = append(depOps, w.OpDeposit(w.Orb, denom, v.Int64()))
					P[denom] = v
				}
				if depFailed {
					rep.Outcome("deposit-impossible-in-state")
					continue
				}
				s2 := w.Snapshot(b2)
				r2 := w.Recv(b2, pkt)
				a2 := w.Snapshot(b2)
				bal2, sup2 := LedgerDelta(s2, a2)
				st2, _ := w.exportedStats(b2, nil)
				sig := fmt.Sprintf("transfer=%s deposits=%s", t.Label, dep)
				group := t.Spec.Fwd.String()
				replay := func() []byte {
					ops := append(n.Ops(alpha), depOps...)
					ops = append(ops, Op{Label: t.Label, Pkt: &pkt})
					return mustJSON(map[string]any{"ops": ops, "note": "compare with the same list without the Deposit ops that follow the history " + strings.Join(path, " ; ")})
				}
				if r1.Panic != "" || r2.Panic != "" {
					rep.Violate(Violation{Kind: "panic", Group: group, Sig: sig, Replay: replay(), What: fmt.Sprintf("panic: %q / %q [%s] after %v", r1.Panic, r2.Panic, sig, path)})
					continue
				}
				if r1.Success || r2.Success {
					rep.Distinct(sig)
					rep.Outcome("pair-with-success")
				} else {
					rep.Outcome("pair-both-refused")
				}
				if !bytes.Equal(r1.Ack, r2.Ack) {
					rep.Violate(Violation{Kind: "ack-depends-on-preexisting-balance", Group: group, Sig: sig, Replay: replay(),
						What: fmt.Sprintf("acknowledgement differs with deposits %s on the orbiter account: without %s, with %s [%s] after %v", dep, trunc(string(r1.Ack), 200), trunc(string(r2.Ack), 200), t.Label, path)})
					continue
				}
				rep.Count("traces_validated_against_impl", 1)
				// every account other than orb and dust: identical deltas; supply identical
				filt := func(d Delta) Delta {
					o := Delta{}
					for k, v := range d {
						if strings.HasPrefix(k, w.Orb.String()+"|") || strings.HasPrefix(k, w.Dust.String()+"|") {
							continue
						}
						o[k] = v
					}
					return o
				}
				if f1, f2 := filt(bal1), filt(bal2); !f1.Equal(f2) || !sup1.Equal(sup2) {
					rep.Violate(Violation{Kind: "fund-movements-depend-on-preexisting-balance", Group: group,
						Sig: sig + " discrepancy=" + w.deltaDiscrepancy(f2, f1).String(), Replay: replay(),
						What: fmt.Sprintf("fee credits / forwarded amount differ with deposits %s: without bal=%s supply=%s, with bal=%s supply=%s [%s] after %v", dep, f1, sup1, f2, sup2, t.Label, path)})
				}
				if strings.Join(st1, "\n") != strings.Join(st2, "\n") {
					rep.Violate(Violation{Kind: "statistics-depend-on-preexisting-balance", Group: group, Sig: sig, Replay: replay(),
						What: fmt.Sprintf("statistics differ with deposits %s [%s] after %v", dep, t.Label, path)})
				}
				if r2.Success {
					// the transferred denom's stray balance (deposit + what the state already held) is on the dust collector
					wantDust := new(big.Int).Set(s2.Get(w.Orb, D).BigInt())
					// (+ what the payload itself pays to the dust collector as a fee recipient)
					fr := feeRef(A, t.Spec.Fees)
					for fi, f := range t.Spec.Fees {
						if decodesTo(f.To, w.Dust) && fr.Refuse == "" {
							wantDust.Add(wantDust, fr.Entries[fi])
						}
					}
					gotDust := new(big.Int).Sub(a2.Get(w.Dust, D).BigInt(), s2.Get(w.Dust, D).BigInt())
					if gotDust.Cmp(wantDust) != 0 {
						rep.Violate(Violation{Kind: "stray-balance-not-on-dust-collector", Group: group, Sig: sig, Replay: replay(),
							What: fmt.Sprintf("dust collector gained %s of %s, stray balance was %s [%s deposits %s] after %v", gotDust, D, wantDust, t.Label, dep, path)})
					}
					if !a2.Get(w.Orb, D).IsZero() {
						rep.Violate(Violation{Kind: "transferred-denom-left-on-orbiter", Group: group, Sig: sig, Replay: replay(),
							What: fmt.Sprintf("orbiter account still holds %s%s after a successful transfer [%s deposits %s]", a2.Get(w.Orb, D), D, t.Label, dep)})
					}
				}
				// other denominations stay where they are (success or not)
				for dn := range s2.Bal[w.Orb.String()] {
					if dn == D {
						continue
					}
					if !a2.Get(w.Orb, dn).Equal(s2.Get(w.Orb, dn)) {
						rep.Violate(Violation{Kind: "other-denom-moved", Group: group,
							Sig: sig + fmt.Sprintf(" moved=%s:%s", dn, new(big.Int).Sub(a2.Get(w.Orb, dn).BigInt(), s2.Get(w.Orb, dn).BigInt())), Replay: replay(),
							What: fmt.Sprintf("orbiter's pre-existing %s changed from %s to %s during a transfer of %s [%s deposits %s] after %v", dn, s2.Get(w.Orb, dn), a2.Get(w.Orb, dn), D, t.Label, dep, path)})
					}
				}
			}
		}
		if len(n.Path) == 1 && n.Path[0]%4 == 0 {
			rep.Sample(map[string]any{"state_history": path, "example_transfer": transfers[n.Path[0]%len(transfers)].Label, "deposit_sets": fmt.Sprint(deposits)})
		}
	}
	x.RunOn(worlds)
	rep.Counters["transitions"] += 2 * rep.Counters["pairs"]
	rep.Guard(rep.Outcomes["pair-with-success"] > 1000, "too few successful pairs: %v", rep.Outcomes)
	rep.Guard(rep.Counters["states"] >= 50, "too few states: %d", rep.Counters["states"])
	return rep
}

func trunc(s string, n int) string {
	if len(s) > n {
		return s[:n] + "…"
	}
	return s
}
