package simapp

// C04 — fees are exact, computed on the incoming amount, and bounded.
// E2: bounded-exhaustive over amounts × fee lists. Pure level = the repository's FeeController.HandlePacket
// driven with a recording bank (exactly the code the executor calls); stack level = the same lists through
// the full application with the internal route. Reference: feeRef in math/big.

import (
	"github.com/cosmos/btcutil/bech32"
	"bytes"
	"context"
	"fmt"
	"math/big"
	"strings"
	"sync"

	"cosmossdk.io/math"
	codectypes "github.com/cosmos/cosmos-sdk/codec/types"
	"github.com/cosmos/cosmos-sdk/runtime"
	sdk "github.com/cosmos/cosmos-sdk/types"

	actionctrl "github.com/noble-assets/orbiter/v2/controller/action"
	orbtypes "github.com/noble-assets/orbiter/v2/types"
	acttypes "github.com/noble-assets/orbiter/v2/types/controller/action"
	"github.com/noble-assets/orbiter/v2/types/core"
)

type recBank struct{ sends []string }

func (r *recBank) SendCoins(_ context.Context, from, to sdk.AccAddress, amt sdk.Coins) error {
	r.sends = append(r.sends, fmt.Sprintf("%s>%s:%s", from, to, amt))
	return nil
}

// feeShape: an entry template; Rel != "" means the fixed amount is computed from the amount A.
type feeShape struct {
	Name string
	To   string
	Bps  uint32
	Fix  string
	Rel  string // "A-1" | "A" | "A+1" | "A/2" | "A/2+1"
	IsFx bool
}

func (s feeShape) spec(A *big.Int) FeeSpec {
	f := FeeSpec{To: s.To, Bps: s.Bps, Fixed: s.Fix, UseFixed: s.IsFx}
	switch s.Rel {
	case "A-1":
		f.Fixed = new(big.Int).Sub(A, big.NewInt(1)).String()
	case "A":
		f.Fixed = A.String()
	case "A+1":
		f.Fixed = new(big.Int).Add(A, big.NewInt(1)).String()
	case "A/2":
		f.Fixed = new(big.Int).Quo(A, big.NewInt(2)).String()
	case "A/2+1":
		f.Fixed = new(big.Int).Add(new(big.Int).Quo(A, big.NewInt(2)), big.NewInt(1)).String()
	}
	return f
}

func (w *World) c04Menus() (fullMenu, subMenu []feeShape) {
	f1, f2 := w.Fee1.String(), w.Fee2.String()
	for _, b := range []uint32{0, 1, 2, 3333, 5000, 9999, 10000, 10001, 4294967295} {
		fullMenu = append(fullMenu, feeShape{Name: fmt.Sprintf("bps%d>fee1", b), To: f1, Bps: b})
	}
	for _, x := range []string{"0", "1", "-1", "+1", "0x10", "1_0", "1e3", "", "abc", " 1", maxUint256Str, "115792089237316195423570985008687907853269984665640564039457584007913129639936"} {
		fullMenu = append(fullMenu, feeShape{Name: fmt.Sprintf("fix%q>fee2", x), To: f2, Fix: x, IsFx: true})
	}
	for _, r := range []string{"A-1", "A", "A+1", "A/2", "A/2+1"} {
		fullMenu = append(fullMenu, feeShape{Name: "fix(" + r + ")>fee2", To: f2, Rel: r, IsFx: true})
	}
	fullMenu = append(fullMenu,
		feeShape{Name: "bps100>FEE1(upper)", To: strings.ToUpper(f1), Bps: 100},
		feeShape{Name: "bps100>invalid", To: "noble1invalid", Bps: 100},
		feeShape{Name: "bps100>empty", To: "", Bps: 100},
		feeShape{Name: "fix1>otherHRP", To: encodingsOf(w.Fee1)[5].S, Fix: "1", IsFx: true},
		// well-formed bech32 under the right prefix whose payload is not an address: no bytes at all, 256 bytes (seed C04i)
		feeShape{Name: "bps100>bech32(noble,0 bytes)", To: mustBech32("noble", nil), Bps: 100},
		feeShape{Name: "fix1>bech32(noble,256 bytes)", To: mustBech32("noble", bytes.Repeat([]byte{7}, 256)), Fix: "1", IsFx: true},
	)
	subMenu = []feeShape{
		{Name: "bps1>fee1", To: f1, Bps: 1}, {Name: "bps3333>fee2", To: f2, Bps: 3333}, {Name: "bps5000>fee1", To: f1, Bps: 5000},
		{Name: "fix1>fee1", To: f1, Fix: "1", IsFx: true}, {Name: "fix7>fee2", To: f2, Fix: "7", IsFx: true}, {Name: "fix(A/2)>carol", To: w.Carol.String(), Rel: "A/2", IsFx: true},
	}
	return
}

func boundaryAmounts() []*big.Int {
	var out []*big.Int
	add := func(b *big.Int) {
		if b.Sign() > 0 && b.Cmp(maxU256) <= 0 {
			out = append(out, b)
		}
	}
	for _, k := range []uint{32, 63, 64, 128, 242, 243, 255, 256} {
		p := new(big.Int).Lsh(big.NewInt(1), k)
		add(new(big.Int).Sub(p, big.NewInt(1)))
		add(p)
		add(new(big.Int).Add(p, big.NewInt(1)))
	}
	for _, bps := range []int64{2, 3333, 5000, 9999, 10000} {
		q := new(big.Int).Quo(maxU256, big.NewInt(bps))
		add(new(big.Int).Sub(q, big.NewInt(1)))
		add(q)
		add(new(big.Int).Add(q, big.NewInt(1)))
	}
	add(new(big.Int).Set(maxU256))
	for _, v := range []int64{1, 2, 3, 9999, 10000, 10001, 19999, 20000} {
		add(big.NewInt(v))
	}
	return out
}

func listsUpTo(menu []feeShape, maxLen int) [][]feeShape {
	out := [][]feeShape{nil}
	cur := [][]feeShape{nil}
	for l := 1; l <= maxLen; l++ {
		var next [][]feeShape
		for _, p := range cur {
			for _, m := range menu {
				n := append(append([]feeShape{}, p...), m)
				next = append(next, n)
			}
		}
		out = append(out, next...)
		cur = next
	}
	return out
}

func init() { register("C04", checkC04) }

func checkC04(tier string) *Report {
	rep := NewReport("C04", tier, "exploration")
	full := tier == "thorough"
	rep.Rule = "pure level: (all amounts 1..N + 2^k boundaries + overflow boundaries) × (all fee lists of length <= 2 over the 30-shape menu) and (boundary amounts × all lists of length <= L over a 6-shape sub-menu), each through the repository's FeeController.HandlePacket with a recording bank; stack level: the length<=2 lists and the 5/6-entry boundary through the full application. Non-trivial = distinct (list shape, verdict class) with a non-empty list"
	rep.Assumptions = []string{
		"fixed amounts are read with the integer parser the SDK uses (big.Int base 0: \"+1\" is 1, \"0x10\" is 16, \"1_0\" is 10); the property's 'positive integer' is judged on that reading",
		"converse (not in the refusal list => executed) is demanded only for ordinary-account recipients on the internal route with nothing paused",
	}
	w, err := NewWorld()
	if err != nil {
		rep.HarnessError("fixture: %v", err)
		return rep
	}
	fullMenu, subMenu := w.c04Menus()
	N := 2000
	L := 4
	if full {
		N, L = 20000, 6
	}
	var smallAmts []*big.Int
	for i := 1; i <= N; i++ {
		smallAmts = append(smallAmts, big.NewInt(int64(i)))
	}
	bAmts := boundaryAmounts()
	lists2 := listsUpTo(fullMenu, 2)
	listsL := listsUpTo(subMenu, L)
	rep.Extra["amounts_small"] = len(smallAmts)
	rep.Extra["amounts_boundary"] = len(bAmts)
	rep.Extra["lists_len<=2_full_menu"] = len(lists2)
	rep.Extra[fmt.Sprintf("lists_len<=%d_sub_menu", L)] = len(listsL)

	type job struct {
		A    *big.Int
		list []feeShape
	}
	nw := numWorkers()
	jobs := make(chan job, 4096)
	var wg sync.WaitGroup
	for i := 0; i < nw; i++ {
		wg.Add(1)
		go func() {
			defer wg.Done()
			bank := &recBank{}
			fc, err := actionctrl.NewFeeController(silentLogger, runtime.ProvideEventService(), bank)
			if err != nil {
				rep.HarnessError("fee controller: %v", err)
				return
			}
			ctx := Branch(w.Ctx)
			for jb := range jobs {
				c04Pure(rep, w, fc, bank, ctx, jb.A, jb.list)
			}
		}()
	}
	for _, A := range append(append([]*big.Int{}, smallAmts...), bAmts...) {
		for _, l := range lists2 {
			jobs <- job{A, l}
		}
	}
	for _, A := range bAmts {
		for _, l := range listsL {
			if len(l) <= 2 {
				continue
			}
			jobs <- job{A, l}
		}
	}
	close(jobs)
	wg.Wait()

	// ---- stack level (full application, internal route)
	worlds, err := buildWorlds(nw)
	if err != nil {
		rep.HarnessError("fixture: %v", err)
		return rep
	}
	type sjob struct {
		A    *big.Int
		base string
		list []feeShape
	}
	var sjobs []sjob
	stackAmts := []*big.Int{big.NewInt(1), big.NewInt(2), big.NewInt(3), big.NewInt(9999), big.NewInt(10000), big.NewInt(10001), big.NewInt(123456789)}
	for _, A := range stackAmts {
		for _, l := range lists2 {
			sjobs = append(sjobs, sjob{A, denomUSDC, l})
		}
	}
	for _, A := range []*big.Int{maxU256, new(big.Int).Rsh(maxU256, 1), new(big.Int).Quo(maxU256, big.NewInt(5000)), new(big.Int).Add(new(big.Int).Quo(maxU256, big.NewInt(5000)), big.NewInt(1))} {
		for _, l := range lists2 {
			sjobs = append(sjobs, sjob{A, denomBIG, l})
		}
	}
	for _, l := range listsUpTo(subMenu[:3], 6) {
		if len(l) >= 5 {
			sjobs = append(sjobs, sjob{big.NewInt(1000000), denomUSDC, l})
		}
	}
	if !full {
		// quick: thin the 6-entry lists
		var t []sjob
		for i, j := range sjobs {
			if len(j.list) < 6 || i%9 == 0 {
				t = append(t, j)
			}
		}
		sjobs = t
	}
	rep.Extra["stack_level_cases"] = len(sjobs)
	parallelFor(worlds, len(sjobs), func(w *World, i int) { c04Stack(rep, w, sjobs[i].A, sjobs[i].base, sjobs[i].list) })
	rep.Guard(rep.Outcomes["pure-accepted-exact"] > 1000 && rep.Outcomes["pure-refused"] > 1000 && rep.Outcomes["stack-accepted-exact"] > 100 && rep.Outcomes["stack-refused"] > 100, "outcome classes missing: %v", rep.Outcomes)
	return rep
}

func shapeNames(l []feeShape) string {
	var n []string
	for _, s := range l {
		n = append(n, s.Name)
	}
	return "[" + strings.Join(n, ", ") + "]"
}

func buildFeeAction(specs []FeeSpec) (*core.Action, error) {
	attr := &acttypes.FeeAttributes{}
	for _, f := range specs {
		fi := &acttypes.FeeInfo{Recipient: f.To}
		if f.IsFixed() {
			fi.FeeType = &acttypes.FeeInfo_Amount_{Amount: &acttypes.FeeInfo_Amount{Value: f.Fixed}}
		} else {
			fi.FeeType = &acttypes.FeeInfo_BasisPoints_{BasisPoints: &acttypes.FeeInfo_BasisPoints{Value: f.Bps}}
		}
		attr.FeesInfo = append(attr.FeesInfo, fi)
	}
	anyv, err := codectypes.NewAnyWithValue(attr)
	if err != nil {
		return nil, err
	}
	return &core.Action{Id: core.ACTION_FEE, Attributes: anyv}, nil
}

func c04Pure(rep *Report, w *World, fc *actionctrl.FeeController, bank *recBank, ctx sdk.Context, A *big.Int, list []feeShape) {
	var specs []FeeSpec
	for _, s := range list {
		specs = append(specs, s.spec(A))
	}
	rep.Count("evaluations", 1)
	ref := feeRef(A, specs)
	sig := fmt.Sprintf("A=%s list=%s", amtClass(A), shapeNames(list))
	group := shapeNames(list)
	replayFn := func() []byte { return mustJSON(map[string]any{"amount": A.String(), "fees": specs}) }
	act, err := buildFeeAction(specs)
	if err != nil {
		rep.HarnessError("build action: %v", err)
		return
	}
	ta, err := core.NewTransferAttributes(core.PROTOCOL_IBC, "channel-0", denomUSDC, math.NewIntFromBigInt(A))
	if err != nil {
		rep.HarnessError("transfer attributes: %v", err)
		return
	}
	bank.sends = bank.sends[:0]
	var herr error
	var pan any
	func() {
		defer func() { pan = recover() }()
		herr = fc.HandlePacket(ctx, &orbtypes.ActionPacket{TransferAttributes: ta, Action: act})
	}()
	cls := "accepted"
	if ref.Refuse != "" {
		cls = "refuse:" + ref.Refuse
	}
	if len(list) > 0 {
		rep.Distinct(shapeNames(list) + "|" + cls)
	}
	if pan != nil {
		rep.Outcome("pure-panic")
		rep.Violate(Violation{Kind: "panic", Group: group, Sig: sig, Replay: replayFn(), What: fmt.Sprintf("fee action panicked instead of refusing (%v): %s", pan, sig)})
		return
	}
	if ref.Ambiguous && (ref.Refuse == "" || ref.Refuse == "sum not strictly below amount" || ref.Refuse == "arithmetic overflow") {
		// a spelling the property does not classify: only internal consistency is demanded
		paid := new(big.Int)
		for _, sd := range bank.sends {
			if cs, err := sdk.ParseCoinsNormalized(sd[strings.LastIndex(sd, ":")+1:]); err == nil && len(cs) == 1 {
				paid.Add(paid, cs[0].Amount.BigInt())
			}
		}
		left := ta.DestinationAmount().BigInt()
		if herr != nil && (len(bank.sends) != 0 || left.Cmp(A) != 0) {
			rep.Violate(Violation{Kind: "refused-but-paid", Group: group, Sig: sig, Replay: replayFn(), What: fmt.Sprintf("refused fee action still paid %v: %s", bank.sends, sig)})
		} else if herr == nil && (new(big.Int).Add(left, paid).Cmp(A) != 0 || left.Sign() <= 0) {
			rep.Violate(Violation{Kind: "forwarded-amount-not-exact", Group: group, Sig: sig, Replay: replayFn(), What: fmt.Sprintf("paid %s, left %s, incoming %s: %s", paid, left, A, sig)})
		} else {
			rep.Outcome("pure-ambiguous-spelling-consistent")
		}
		return
	}
	if ref.Refuse != "" {
		if herr == nil {
			rep.Violate(Violation{Kind: "not-refused", Group: group, Sig: sig, Replay: replayFn(), What: fmt.Sprintf("fee action must be refused (%s) but was executed: %s sends=%v", ref.Refuse, sig, bank.sends)})
			return
		}
		if len(bank.sends) != 0 || ta.DestinationAmount().BigInt().Cmp(A) != 0 {
			rep.Violate(Violation{Kind: "refused-but-paid", Group: group, Sig: sig, Replay: replayFn(), What: fmt.Sprintf("refused fee action still paid %v / changed the amount to %s: %s", bank.sends, ta.DestinationAmount(), sig)})
			return
		}
		rep.Outcome("pure-refused")
		return
	}
	if herr != nil {
		rep.Violate(Violation{Kind: "refused-although-valid", Group: group, Sig: sig, Replay: replayFn(), What: fmt.Sprintf("valid fee list refused: %v [%s]", herr, sig)})
		return
	}
	// credits per recipient (the property is about what each recipient is credited, not about how many
	// bank sends are used): aggregate the recorded sends and the reference per recipient
	want := map[string]*big.Int{}
	for i, f := range specs {
		if ref.Entries[i].Sign() > 0 {
			to, _ := sdk.AccAddressFromBech32(f.To)
			if want[to.String()] == nil {
				want[to.String()] = new(big.Int)
			}
			want[to.String()].Add(want[to.String()], ref.Entries[i])
		}
	}
	got := map[string]*big.Int{}
	okParse := true
	for _, sd := range bank.sends {
		// "from>to:coins"
		i, j := strings.Index(sd, ">"), strings.LastIndex(sd, ":")
		from, to, coins := sd[:i], sd[i+1:j], sd[j+1:]
		cs, err := sdk.ParseCoinsNormalized(coins)
		if err != nil || from != w.Orb.String() || len(cs) != 1 || cs[0].Denom != denomUSDC {
			okParse = false
			break
		}
		if got[to] == nil {
			got[to] = new(big.Int)
		}
		got[to].Add(got[to], cs[0].Amount.BigInt())
	}
	same := okParse && len(got) == len(want)
	for k, v := range want {
		if got[k] == nil || got[k].Cmp(v) != 0 {
			same = false
		}
	}
	if !same {
		rep.Violate(Violation{Kind: "fee-credits-not-exact", Group: group, Sig: sig, Replay: replayFn(), What: fmt.Sprintf("fee sends %v, reference credits %v [%s]", bank.sends, want, sig)})
		return
	}
	if out := new(big.Int).Sub(A, ref.Total); ta.DestinationAmount().BigInt().Cmp(out) != 0 {
		rep.Violate(Violation{Kind: "forwarded-amount-not-exact", Group: group, Sig: sig, Replay: replayFn(), What: fmt.Sprintf("amount left for forwarding %s, reference %s [%s]", ta.DestinationAmount(), out, sig)})
		return
	}
	rep.Outcome("pure-accepted-exact")
}

// amtClass keeps violation signatures stable across the amount sweep (small amounts are bucketed).
func amtClass(A *big.Int) string {
	if A.IsInt64() && A.Int64() <= 20000 {
		return "small"
	}
	return A.String()
}

func c04Stack(rep *Report, w *World, A *big.Int, base string, list []feeShape) {
	var specs []FeeSpec
	special := false
	for _, s := range list {
		f := s.spec(A)
		specs = append(specs, f)
		if a, err := sdk.AccAddressFromBech32(f.To); err == nil && (a.Equals(w.Orb) || a.Equals(w.Dust)) {
			special = true
		}
	}
	rep.Count("evaluations", 1)
	t := TransferSpec{"channel-0", base, A.String(), w.Orb.String(), w.FwdInternal(w.Bob), specs}
	ref := feeRef(A, specs)
	sig := fmt.Sprintf("stack A=%s%s list=%s", A, base, shapeNames(list))
	group := "stack " + shapeNames(list)
	pkt := t.Pkt()
	replay := mustJSON(map[string]any{"ops": []Op{{Label: sig, Pkt: &pkt}}, "expect": []replayExpect{{Kind: "no_panic", Want: true}}})
	ctx := Branch(w.Ctx)
	before := w.Snapshot(ctx)
	r := w.Recv(ctx, pkt)
	if r.Panic != "" {
		rep.Violate(Violation{Kind: "panic", Group: group, Sig: sig, Replay: replay, What: "receive path panicked instead of refusing: " + r.Panic + " " + sig})
		return
	}
	if ref.Ambiguous && (ref.Refuse == "" || ref.Refuse == "sum not strictly below amount" || ref.Refuse == "arithmetic overflow") {
		rep.Outcome("stack-ambiguous-spelling(no panic)")
		return
	}
	if ref.Refuse != "" {
		if r.Success {
			rep.Violate(Violation{Kind: "not-refused", Group: group, Sig: sig, Replay: replay, What: fmt.Sprintf("transfer must be refused (%s) but got a success ack [%s]", ref.Refuse, sig)})
			return
		}
		rep.Outcome("stack-refused")
		return
	}
	if !r.Success {
		if special {
			return
		}
		rep.Violate(Violation{Kind: "refused-although-valid", Group: group, Sig: sig, Replay: replay, What: fmt.Sprintf("valid fee list refused: %s [%s]", trunc(r.AckErr(), 240), sig)})
		return
	}
	bal, sup := LedgerDelta(before, w.Snapshot(ctx))
	expBal, expSup, _, err := w.expectedDelta(t, before.Get(w.Orb, base).BigInt())
	if err != nil || !bal.Equal(expBal) || !sup.Equal(expSup) {
		rep.Violate(Violation{Kind: "fee-credits-not-exact", Group: group, Sig: sig, Replay: replay, What: fmt.Sprintf("ledger delta %s differs from the reference %s (err=%v) [%s]", bal, expBal, err, sig)})
		return
	}
	rep.Outcome("stack-accepted-exact")
	rep.Count("traces_validated_against_impl", 1)
}

func newFeeController(bank *recBank) (*actionctrl.FeeController, error) {
	return actionctrl.NewFeeController(silentLogger, runtime.ProvideEventService(), bank)
}

func mustBech32(hrp string, bz []byte) string {
	conv, err := bech32.ConvertBits(bz, 8, 5, true)
	if err != nil {
		panic(err)
	}
	out, err := bech32.Encode(hrp, conv)
	if err != nil {
		panic(err)
	}
	return out
}
