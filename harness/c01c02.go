package simapp

// C01 — received funds never stay on the orbiter account.
// C02 — every successful transfer conserves value across the whole ledger.
// One exploration (E1 prefix+probe on the FULL application) serves both; the property selects the oracle.

import (
	porttypes "github.com/cosmos/ibc-go/v8/modules/core/05-port/types"
	"fmt"
	"math/big"
	"strings"

	sdk "github.com/cosmos/cosmos-sdk/types"
)

// Probe: one packet with what the harness knows about it.
type Probe struct {
	Label string
	Group string
	Pkt   Pkt
	Spec  *TransferSpec // non-nil when the memo is a payload built from this spec
}

func (w *World) ledgerPrefix() ([]Op, map[string]TransferSpec) {
	orb := w.Orb.String()
	specs := map[string]TransferSpec{}
	var ops []Op
	addT := func(t TransferSpec) {
		op := w.OpRecv(t.Label(), t.Pkt())
		specs[op.Label] = t
		ops = append(ops, op)
	}
	addT(TransferSpec{"channel-0", denomUSDC, "1000", orb, w.FwdCCTP(0), nil})
	addT(TransferSpec{"channel-0", denomUSDC, "10000", orb, w.FwdCCTP(0), []FeeSpec{{To: w.Fee1.String(), Bps: 100}}})
	addT(TransferSpec{"channel-0", denomUSDC, "777", orb, w.FwdHyp(1), nil})
	addT(TransferSpec{"channel-0", denomUSDC, "500", orb, w.FwdInternal(w.Bob), nil})
	addT(TransferSpec{"channel-1", denomOTH, "10001", orb, w.FwdInternal(w.Bob), []FeeSpec{{To: w.Fee1.String(), Fixed: "7"}, {To: w.Fee2.String(), Bps: 100}}})
	// a fee paid to a MODULE address that no account object exists for yet (the dust collector is created lazily by
	// the first sweep): histories continue from the state in which the fee action has created an account there
	addT(TransferSpec{"channel-0", denomUSDC, "400", orb, w.FwdInternal(w.Bob), []FeeSpec{{To: w.Dust.String(), Fixed: "1"}}})
	// ... and the same under the upper-case bech32 spelling of that address (a refusal by string comparison would let it through)
	addT(TransferSpec{"channel-0", denomUSDC, "401", orb, w.FwdInternal(w.Bob), []FeeSpec{{To: strings.ToUpper(w.Dust.String()), Fixed: "1"}}})
	// magnitudes: a stray balance of 2^63-1 in an 18-decimal style denomination, and a transfer in that denomination (it sweeps
	// the stray balance: the dust collector then holds an amount at the edge of the 64-bit range)
	addT(TransferSpec{"channel-0", denomBIG2, "1000", orb, w.FwdInternal(w.Bob), nil})
	ops = append(ops, w.OpDeposit(w.Orb, denomBIG2, 9223372036854775807))
	ops = append(ops,
		w.OpDeposit(w.Orb, denomUSDC, 5),
		w.OpDeposit(w.Orb, denomOTH, 3),
		w.OpDeposit(w.Orb, denomIGP, 5000),
		w.OpPauseProtocol("PROTOCOL_CCTP"),
		w.OpPauseCC("PROTOCOL_HYPERLANE", "1"),
		w.OpPauseAction("ACTION_FEE"),
		w.OpUpdateParams(8),
		OpEnv("ftf-pause"),
		// statistics of one route 10 below the top of the 256-bit range (a state genesis import can produce): the next
		// transfers on that route cannot be recorded — whatever the module makes of that, the funds must still move
		OpEnv("seed-stats-top"),
		w.OpRecv("plainICS20(bob,300uusdc)", NewPkt("channel-0", denomUSDC, "300", w.Bob.String(), "")),
	)
	return ops, specs
}

func (w *World) fwdMenu() []Fwd {
	upperOrb := strings.ToUpper(w.Orb.String())
	return []Fwd{
		w.FwdCCTP(0), w.FwdCCTPCaller(1), w.FwdHyp(1), w.FwdHyp(3),
		w.FwdInternal(w.Bob), {Kind: "internal", To: w.Orb.String()}, {Kind: "internal", To: upperOrb},
		w.FwdInternal(w.Dust), w.FwdInternal(w.Fee1),
	}
}

func (w *World) feeMenu() [][]FeeSpec {
	return [][]FeeSpec{
		nil,
		{{To: w.Fee1.String(), Bps: 100}},
		{{To: w.Fee1.String(), Fixed: "7"}, {To: w.Fee2.String(), Bps: 250}},
		{{To: w.Orb.String(), Bps: 100}},
		{{To: w.Dust.String(), Fixed: "5"}},
		{{To: strings.ToUpper(w.Orb.String()), Bps: 100}},
	}
}

// ledgerProbes builds the probe alphabet. full=false: the reduced (quick) set.
func (w *World) ledgerProbes(full bool, withIGP bool) []Probe {
	var out []Probe
	orbEnc := encodingsOf(w.Orb)
	rcvs := append([]rcvEnc{}, orbEnc...)
	rcvs = append(rcvs, rcvEnc{"bob", w.Bob.String()}, rcvEnc{"BOB", strings.ToUpper(w.Bob.String())},
		rcvEnc{"dust", w.Dust.String()}, rcvEnc{"cctp-module", moduleAddr("cctp").String()}, rcvEnc{"empty", ""})
	type memoM struct {
		name string
		memo string
		fwd  *Fwd
		fees []FeeSpec
	}
	var memos []memoM
	for _, f := range w.fwdMenu() {
		for fi, fees := range w.feeMenu() {
			f := f
			memos = append(memos, memoM{fmt.Sprintf("%s/fee%d", f, fi), Memo(f, fees), &f, fees})
		}
	}
	memos = append(memos, memoM{"nomemo", "", nil, nil}, memoM{"malformed", "{", nil, nil}, memoM{"emptyorbiter", `{"orbiter":{}}`, nil, nil},
		// memos on which third-party decoders reached from the adapter PANIC (C14, hunters H1-H3): whatever the recovery does, the
		// packet is addressed to the orbiter — it must be refused, not handed to the plain ICS-20 flow (seed C14g)
		memoM{"decoder-panics(forwarding)", `{"orbiter":{"forwarding":{"protocol_id":"PROTOCOL_INTERNAL","attributes":{"@type":"/cosmos.crypto.secp256r1.PubKey","key":0}}}}`, nil, nil},
		memoM{"decoder-panics(action)", MemoJSON(w.FwdInternal(w.Bob), `{"id":"ACTION_FEE","attributes":{"@type":"/cosmos.crypto.secp256r1.PubKey","key":0}}`), nil, nil})
	mk := func(r rcvEnc, m memoM, ch, base, amt string, native bool) Probe {
		p := NewPkt(ch, base, amt, r.S, m.memo)
		if native {
			p.Denom = base // token native to the sending chain (mint path)
		}
		pr := Probe{Label: fmt.Sprintf("rcv=%s memo=%s amt=%s denom=%s ch=%s", r.Name, m.name, amt, p.Denom, ch), Pkt: p,
			Group: fmt.Sprintf("rcv=%s memo=%s", r.Name, m.name)}
		if m.fwd != nil && !native {
			pr.Spec = &TransferSpec{Chan: ch, Base: base, Amount: amt, Receiver: r.S, Fwd: *m.fwd, Fees: m.fees}
		}
		return pr
	}
	// (1) every receiver × every memo at the reference coin
	for _, r := range rcvs {
		for _, m := range memos {
			out = append(out, mk(r, m, "channel-0", denomUSDC, "1000", false))
		}
	}
	// (2) amounts × denoms × channels for a receiver subset
	sub := []rcvEnc{orbEnc[0]}
	if full {
		sub = rcvs
	} else {
		sub = append(sub, orbEnc[1], rcvEnc{"bob", w.Bob.String()})
	}
	type coinV struct {
		ch, base, amt string
		native        bool
	}
	var coins []coinV
	for _, ch := range []string{"channel-0", "channel-1"} {
		for _, amt := range []string{"1", "1000", "2000000"} {
			for _, d := range []struct {
				b string
				n bool
			}{{denomUSDC, false}, {denomOTH, false}, {"uatom", true}} {
				if ch == "channel-0" && amt == "1000" && d.b == denomUSDC {
					continue
				}
				coins = append(coins, coinV{ch, d.b, amt, d.n})
			}
		}
	}
	// vouchers Noble itself holds in the channel escrow (it once sent them out over this channel), named by their hash and by
	// their full trace: not Noble-native, so the orbiter must refuse them — handing them to the plain ICS-20 flow instead
	// (seeds C16e, C01g) credits the orbiter account with a success acknowledgement
	coins = append(coins, coinV{"channel-0", denomHashedVoucher, "1000", false}, coinV{"channel-1", "transfer/channel-1/uatom", "1000", false})
	for _, r := range sub {
		for _, m := range memos {
			for _, c := range coins {
				out = append(out, mk(r, m, c.ch, c.base, c.amt, c.native))
			}
		}
	}
	// (3) C02's amount menu through internal / cctp / hyp with and without a fee (receiver = orb)
	for _, amt := range []string{"2", "9999", "10000", "10001", fmt.Sprint(burnLimit), fmt.Sprint(burnLimit + 1), "9223372036854775808"} {
		for _, f := range []Fwd{w.FwdCCTP(0), w.FwdHyp(1), w.FwdInternal(w.Bob)} {
			for fi, fees := range w.feeMenu()[:3] {
				f := f
				out = append(out, mk(orbEnc[0], memoM{fmt.Sprintf("%s/fee%d", f, fi), Memo(f, fees), &f, fees}, "channel-0", denomUSDC, amt, false))
			}
		}
	}
	// a fee list that is valid entry by entry but whose TOTAL does not fit 256 bits: refused in the middle of the computation —
	// whatever the computation had gathered by then must be gone when the next packet arrives (seed C02i kept it in the controller)
	for _, f := range []Fwd{w.FwdInternal(w.Bob), w.FwdCCTP(0)} {
		f := f
		fees := []FeeSpec{{To: w.Fee2.String(), Fixed: "400"}, {To: w.Fee1.String(), Fixed: maxUint256Str}}
		out = append(out, mk(orbEnc[0], memoM{fmt.Sprintf("%s/fee-total-overflows", f), Memo(f, fees), &f, fees}, "channel-0", denomUSDC, "100000", false))
		// ... and the NEXT packet (probes of one state are delivered in this order by one instance) is an ordinary transfer with a fee
		next := w.feeMenu()[1]
		out = append(out, mk(orbEnc[0], memoM{fmt.Sprintf("%s/fee1/right-after-a-refused-fee-computation", f), Memo(f, next), &f, next}, "channel-0", denomUSDC, "100000", false))
	}
	// top of the range: 2^256-1 of ubig through the internal route
	for fi, fees := range w.feeMenu()[:3] {
		f := w.FwdInternal(w.Bob)
		for _, amt := range []string{maxUint256Str, new(big.Int).Rsh(maxU256, 1).String()} {
			out = append(out, mk(orbEnc[0], memoM{fmt.Sprintf("%s/fee%d", f, fi), Memo(f, fees), &f, fees}, "channel-0", denomBIG, amt, false))
		}
	}
	// (3b) Hyperlane attribute dimension on the ordinary mailbox (its hooks charge nothing): a positive max_fee in the
	// transferred denomination (equal to / just below the amount, small), in another denomination, gas limits, a custom
	// hook with metadata — none of them may keep any part of the coin on the orbiter account or change what is locked
	for _, v := range []struct{ tag, maxFee, gas string; hook []byte; meta string }{
		{"maxfee=7uusdc", "7uusdc", "0", nil, ""}, {"maxfee=3999uusdc", "3999uusdc", "0", nil, ""}, {"maxfee=4000uusdc", "4000uusdc", "0", nil, ""},
		{"maxfee=7uother", "7uother", "0", nil, ""}, {"gas=1", "0uusdc", "1", nil, ""}, {"gas=200000,maxfee=9uusdc", "9uusdc", "200000", nil, ""},
		{"hook=H0,meta", "3uusdc", "5", w.HookH0.Bytes(), "0xabcd"}, {"meta-without-hook", "0uusdc", "0", nil, "0xabcd"}, {"no-maxfee-no-gas", "", "", nil, ""},
	} {
		f := w.FwdHyp(1)
		f.MaxFee, f.GasLimit, f.Hook, f.HookMeta, f.Tag = v.maxFee, v.gas, v.hook, v.meta, "hyp(1,"+v.tag+")"
		for fi, fees := range w.feeMenu()[:2] {
			out = append(out, mk(orbEnc[0], memoM{fmt.Sprintf("%s/fee%d", f, fi), Memo(f, fees), &f, fees}, "channel-0", denomUSDC, "4000", false))
		}
	}
	// (3b') a passthrough payload within a raised limit (refused while the limit is 0; executed in the states after
	// UpdateParams(8), also with a stray balance on the account): the payload must not change any fund movement
	for _, f := range []Fwd{w.FwdCCTP(0), w.FwdInternal(w.Bob), w.FwdHyp(1)} {
		f := f
		f.Passthrough = []byte{1, 2, 3}
		f.Tag = f.String() + "+passthrough3B"
		for fi, fees := range w.feeMenu()[:2] {
			out = append(out, mk(orbEnc[0], memoM{fmt.Sprintf("%s/fee%d", f, fi), MemoJSON(f, func() []string {
				if fees == nil {
					return nil
				}
				return []string{feeActionJSON(fees)}
			}()...), &f, fees}, "channel-0", denomUSDC, "4000", false))
		}
	}
	// (3c) packet data that is a valid orbiter-addressed ICS-20 document FOLLOWED by something (ICS-20's own decoder reads the
	// first JSON value and ignores the rest): whichever way the middleware classifies it, nothing may stay on the account
	for _, tail := range []string{"x", "}", "{}", " null", "\x00", "\n\n{\"orbiter\":1}", ",", "]"} {
		for _, m := range []string{Memo(w.FwdInternal(w.Bob), nil), Memo(w.FwdCCTP(0), w.feeMenu()[1]), ""} {
			base := NewPkt("channel-0", denomUSDC, "1000", w.Orb.String(), m)
			raw := append(append([]byte{}, base.Data()...), []byte(tail)...)
			out = append(out, Probe{Label: fmt.Sprintf("raw: orbiter-addressed ICS-20 data + trailing %q memo=%s", tail, trunc(m, 40)), Group: "raw-trailing",
				Pkt: Pkt{SrcPort: "transfer", SrcChan: "channel-7", DstPort: "transfer", DstChan: "channel-0", Raw: raw}})
		}
	}
	// (4) Hyperlane token on a mailbox whose required hook charges gas (igp configuration), and the ordinary token with a
	// gas paymaster named as custom hook
	if withIGP {
		for _, f := range []Fwd{
			{Kind: "hyp", Tag: "hypCustomIGP(maxfee=500uigp)", Domain: 1, Token: w.TokenT0.Bytes(), Recipient: b32(5), Hook: w.IgpI1.Bytes(), GasLimit: "0", MaxFee: "500uigp"},
			{Kind: "hyp", Tag: "hypCustomIGP(maxfee=5uusdc)", Domain: 1, Token: w.TokenT0.Bytes(), Recipient: b32(5), Hook: w.IgpI1.Bytes(), GasLimit: "0", MaxFee: "5uusdc"}} {
			f := f
			out = append(out, mk(orbEnc[0], memoM{fmt.Sprintf("%s/fee0", f), Memo(f, nil), &f, nil}, "channel-0", denomUSDC, "4000", false))
		}
		for _, mf := range []string{"0uusdc", "5uusdc", "500uigp"} {
			f := w.FwdHypIGP(mf)
			out = append(out, mk(orbEnc[0], memoM{fmt.Sprintf("%s/fee0", f), Memo(f, nil), &f, nil}, "channel-0", denomUSDC, "4000", false))
		}
	}
	return out
}

func init() {
	register("C01", func(tier string) *Report { return checkLedger("C01", tier) })
	register("C02", func(tier string) *Report { return checkLedger("C02", tier) })
}

func checkLedger(prop, tier string) *Report {
	rep := NewReport(prop, tier, "model_checking")
	rep.Assumptions = []string{
		"IBC core discard-on-error emulated around the transfer stack's OnRecvPacket (DESIGN §1.3.1)",
		"baseapp per-message rollback emulated for admin messages and deposits (DESIGN §1.3.2)",
		"histories bounded by depth over the stated prefix alphabet; probe packets from the stated finite menus",
		"infinite gas meter; ante handlers, block boundaries and relayer behaviour outside the check",
	}
	if prop == "C01" {
		rep.Rule = "every state reachable by ≤D prefix operations receives every probe packet; a case is non-trivial when the packet's receiver decodes to the orbiter account or the acknowledgement is a success"
	} else {
		rep.Rule = "every state reachable by ≤D prefix operations receives every probe packet; a case is non-trivial when an orbiter-addressed transfer succeeded and its whole-ledger delta was compared with the expected delta"
	}
	worlds, err := buildWorlds(numWorkers())
	if err != nil {
		rep.HarnessError("fixture: %v", err)
		return rep
	}
	w0 := worlds[0]
	alpha, specs := w0.ledgerPrefix()
	depth := 2
	if tier == "thorough" {
		depth = 3
	}
	quickProbes := w0.ledgerProbes(false, true)
	fullProbes := quickProbes
	if tier == "thorough" {
		fullProbes = w0.ledgerProbes(true, true)
	}
	rep.Extra["probe_alphabet_size"] = len(quickProbes)
	rep.Extra["probe_alphabet_size_full_depth<=1"] = len(fullProbes)

	check := func(w *World, path []string, pre sdk.Context, before Ledger, label, group string, pkt Pkt, spec *TransferSpec, r RecvResult, post sdk.Context, replayOps []Op) {
		orbAddressed := decodesTo(pkt.Receiver, w.Orb) && pkt.Raw == nil
		sig := label
		replay := func() []byte {
			return mustJSON(map[string]any{"ops": replayOps, "expect": []replayExpect{{Kind: "no_panic", Want: true}, {Kind: "orb_not_increased", Want: true}}})
		}
		if r.Panic != "" {
			rep.Outcome("panic")
			if orbAddressed {
				rep.Violate(Violation{Kind: "panic", Group: group, Sig: sig, Replay: replay(),
					What: fmt.Sprintf("orbiter-addressed packet neither acknowledged nor refused — receive path panicked: %s [%s] after %v", r.Panic, label, path)})
			}
			return
		}
		if !r.Success {
			rep.Outcome("error-ack")
			if orbAddressed {
				rep.Distinct("refused|" + label)
			}
			return
		}
		rep.Outcome("success-ack")
		after := w.Snapshot(post)
		bal, sup := LedgerDelta(before, after)
		if prop == "C01" {
			rep.Distinct("success|" + label)
			for k, v := range bal {
				if strings.HasPrefix(k, w.Orb.String()+"|") && !strings.HasPrefix(v, "-") {
					rep.Violate(Violation{Kind: "success-ack-orbiter-balance-grew", Group: group, Sig: sig, Replay: replay(),
						What: fmt.Sprintf("success ack but orbiter account gained %s of %s [%s] after %v", v, strings.SplitN(k, "|", 2)[1], label, path),
						Detail: map[string]any{"balance_delta": bal.String(), "ack": string(r.Ack)}})
				}
			}
			return
		}
		// ---- C02
		if !orbAddressed || spec == nil {
			return
		}
		stray := before.Get(w.Orb, spec.Base).BigInt()
		expBal, expSup, out, err := w.expectedDelta(*spec, stray)
		if err != nil {
			rep.Violate(Violation{Kind: "success-for-unforwardable-spec", Group: group, Sig: sig, Replay: replay(),
				What: fmt.Sprintf("transfer succeeded although %v [%s]", err, label)})
			return
		}
		rep.Distinct("conserved|" + label)
		rep.Count("traces_validated_against_impl", 1)
		// the released coin must be PAID OUT: a "fee credit" booked to the orbiter account itself (or anything else that
		// leaves part of the coin there) is neither a credit to a recipient nor an amount handed to the route — the only
		// change the property allows on that account is that what sat there before moves to the dust collector
		for k, v := range bal {
			if strings.HasPrefix(k, w.Orb.String()+"|") && !strings.HasPrefix(v, "-") {
				rep.Violate(Violation{Kind: "released-coin-not-fully-paid-out", Group: group, Sig: sig, Replay: replay(),
					What: fmt.Sprintf("successful transfer, but %s of %s stayed on the orbiter account: the released coin is not the sum of what was credited to recipients and handed to the route [%s] after %v", v, strings.SplitN(k, "|", 2)[1], label, path),
					Detail: map[string]any{"balance_delta": bal.String()}})
			}
		}
		if out.Sign() <= 0 {
			rep.Violate(Violation{Kind: "non-positive-forward", Group: group, Sig: sig, Replay: replay(),
				What: fmt.Sprintf("successful transfer forwarded %s (must be > 0) [%s]", out, label)})
		}
		if !bal.Equal(expBal) || !sup.Equal(expSup) {
			disc := w.deltaDiscrepancy(bal, expBal).String() + "/supply" + w.deltaDiscrepancy(sup, expSup).String()
			rep.Violate(Violation{Kind: "ledger-delta", Group: group, Sig: sig + " discrepancy=" + disc, Replay: replay(),
				What: fmt.Sprintf("whole-ledger delta differs from the expected one [%s] after %v: got bal=%s supply=%s; want bal=%s supply=%s", label, path, bal, sup, expBal, expSup),
				Detail: map[string]any{"got_bal": bal.String(), "want_bal": expBal.String(), "got_supply": sup.String(), "want_supply": expSup.String()}})
		}
	}

	x := &Explorer{Rep: rep, Prefix: alpha, Depth: depth}
	if tier == "thorough" {
		x.Budget = budgetFromEnv(40)
	} else {
		x.Budget = budgetFromEnv(8)
	}
	x.OnTransition = func(wk *Worker, n Node, op Op, res OpResult, pre, post sdk.Context, _, _ any) {
		if op.Pkt == nil {
			return
		}
		var spec *TransferSpec
		if s, ok := specs[op.Label]; ok {
			spec = &s
		}
		check(wk.W, pathLabels(alpha, n.Path), pre, wk.W.Snapshot(pre), "prefix:"+op.Label, "prefix", *op.Pkt, spec, *res.Recv, post, append(n.Ops(alpha), op))
	}
	x.OnState = func(wk *Worker, n Node, ctx sdk.Context, _ any) {
		w := wk.W
		before := w.Snapshot(ctx)
		probes := quickProbes
		if len(n.Path) <= 1 {
			probes = fullProbes
		}
		path := pathLabels(alpha, n.Path)
		if len(n.Path) == 2 {
			rep.Sample(map[string]any{"history": path, "probes_applied": len(probes), "example_probe": probes[(len(n.Path)*7+n.Path[0])%len(probes)].Label})
		}
		for i := range probes {
			pr := &probes[i]
			b := Branch(ctx)
			r := w.Recv(b, pr.Pkt)
			rep.Count("probe_transitions", 1)
			check(w, path, ctx, before, pr.Label, pr.Group, pr.Pkt, pr.Spec, r, b, append(n.Ops(alpha), Op{Label: pr.Label, Pkt: &pr.Pkt}))
		}
	}
	x.RunOn(worlds)
	{
		// ---- wiring phase (C02: a success on a partially wired module is judged like any other — the whole-ledger delta): "in every reachable state" of a chain that mounts the middleware — also of one whose application wired
		// only some of the controller groups (an adapter / action / forwarding group forgotten). Whatever such a module answers,
		// an orbiter-addressed packet is either refused or leaves nothing on the account; it never falls through to the plain
		// ICS-20 credit (seed C01h). The seven partial wirings receive the whole quick probe alphabet on the initial state.
		type wiring struct{ ad, ac, fw bool }
		var wirings []wiring
		for m := 0; m < 7; m++ {
			wirings = append(wirings, wiring{m&4 != 0, m&2 != 0, m&1 != 0})
		}
		stacks := make([][]porttypes.IBCModule, len(worlds))
		for wi, w := range worlds {
			for _, wr := range wirings {
				st, err := NewWiredStack(w, wr.ad, wr.ac, wr.fw)
				if err != nil {
					rep.HarnessError("wiring phase: %v", err)
					return rep
				}
				stacks[wi] = append(stacks[wi], st)
			}
		}
		widx := map[*World]int{}
		for i, w := range worlds {
			widx[w] = i
		}
		parallelFor(worlds, len(wirings)*len(quickProbes), func(w *World, i int) {
			wr, pr := wirings[i/len(quickProbes)], &quickProbes[i%len(quickProbes)]
			label := fmt.Sprintf("wiring(adapters=%v,actions=%v,forwardings=%v) %s", wr.ad, wr.ac, wr.fw, pr.Label)
			b := Branch(w.Ctx)
			r := RecvOn(stacks[widx[w]][i/len(quickProbes)], b, pr.Pkt)
			rep.Count("probe_transitions", 1)
			rep.Count("wiring_probes", 1)
			check(w, []string{"partial wiring"}, w.Ctx, w.Snapshot(w.Ctx), label, fmt.Sprintf("wiring(adapters=%v,actions=%v,forwardings=%v) %s", wr.ad, wr.ac, wr.fw, pr.Group), pr.Pkt, pr.Spec, r, b,
				[]Op{{Label: label, Pkt: &pr.Pkt}})
		})
		rep.Extra["partial_wirings"] = len(wirings)
	}
	if prop == "C01" {
		// "in every reachable state" includes the states of the PROCESS after a delivery was cut off by its gas limit (the one failure
		// that aborts the transaction instead of being acknowledged): every gas-charging point of four payload shapes is an abort
		// point; the delivery after the abort must be what it is on an instance that never saw one (engine: c03GasAborts; seed C01i
		// left a flag behind that sent every later orbiter packet to the plain ICS-20 credit)
		c03GasAborts(rep, worlds, false)
	}
	rep.Counters["transitions"] += rep.Counters["probe_transitions"]
	rep.Guard(rep.Outcomes["success-ack"] > 0 && rep.Outcomes["error-ack"] > 0, "outcome classes missing: %v", rep.Outcomes)
	rep.Guard(rep.Counters["states"] >= 50, "too few states: %d", rep.Counters["states"])
	if prop == "C02" {
		rep.Guard(rep.Counters["traces_validated_against_impl"] > 1000, "too few conserved transfers compared: %d", rep.Counters["traces_validated_against_impl"])
	}
	return rep
}
