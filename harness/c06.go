package simapp

// C06 — actions run in payload order on the running amount; the final coin is forwarded.
// E2 over ALL action lists of length 0..3 over {FEE(bps), FEE(fixed), SWAP} × routes × amounts, on the
// INSTRUMENTED stand with the harness' denomination-changing controller registered under ACTION_SWAP
// (and, separately, with the deployed controller set), against a reference interpreter.

import (
	"fmt"
	"math/big"
	"sort"
	"strings"

	"cosmossdk.io/math"

	cctptypes "github.com/circlefin/noble-cctp/x/cctp/types"
	warptypes "github.com/bcp-innovations/hyperlane-cosmos/x/warp/types"
	sdk "github.com/cosmos/cosmos-sdk/types"
	banktypes "github.com/cosmos/cosmos-sdk/x/bank/types"
)

type c06Act struct {
	Name string // "FEEb" | "FEEf" | "SWAP"
	JSON string
	Fees []FeeSpec
}

type c06Case struct {
	Label   string
	Acts    []c06Act
	Fwd     Fwd
	Amount  string
	Pkt     Pkt
}

func (w *World) c06Cases() []c06Case {
	acts := []c06Act{
		{"FEEb", "", []FeeSpec{{To: w.Fee1.String(), Bps: 3333}}},
		{"FEEf", "", []FeeSpec{{To: w.Fee2.String(), Fixed: "2"}}},
		{"SWAP", swapActionJSON, nil},
		// a fee whose recipient is the orbiter account itself: whatever follows (a denomination change makes the coin
		// invisible to a precondition on the final denomination), the coin could not leave the account — must be refused
		{"FEEo", "", []FeeSpec{{To: w.Orb.String(), Bps: 1000}}},
	}
	for i := range acts {
		if acts[i].Fees != nil {
			acts[i].JSON = feeActionJSON(acts[i].Fees)
		}
	}
	var lists [][]c06Act
	lists = append(lists, nil)
	for _, a := range acts {
		lists = append(lists, []c06Act{a})
		for _, b := range acts {
			lists = append(lists, []c06Act{a, b})
			for _, c := range acts {
				lists = append(lists, []c06Act{a, b, c})
			}
		}
	}
	var out []c06Case
	for _, l := range lists {
		for _, f := range []Fwd{w.FwdInternal(w.Bob), w.FwdCCTP(0), w.FwdHyp(1)} {
			for _, amt := range []string{"1", "3", "10000", "10001"} {
				var js, names []string
				for _, a := range l {
					js = append(js, a.JSON)
					names = append(names, a.Name)
				}
				memo := MemoJSON(f, js...)
				pkt := NewPkt("channel-0", denomOTH, amt, w.Orb.String(), memo)
				out = append(out, c06Case{Label: fmt.Sprintf("[%s] -> %s amt=%s", strings.Join(names, ","), f, amt), Acts: l, Fwd: f, Amount: amt, Pkt: pkt})
			}
		}
	}
	return out
}

// c06Interp: the reference interpreter. Returns the expected refusal reason ("" = must execute), the coin
// each action sees, the fee sends expected (recipient, coin) in order, and the final coin.
type c06Expect struct {
	Refuse   string
	Saw      []string // running coin seen by each action
	FeeSends []string // "recipient amountdenom"
	Open     bool     // the outcome (refused / executed) is not fixed by the properties; if executed everything else is judged
	Final    sdk.Coin
}

func c06Interp(c c06Case, swapRegistered bool) c06Expect {
	var e c06Expect
	seen := map[string]bool{}
	for _, a := range c.Acts {
		id := "FEE"
		if a.Name == "SWAP" {
			id = "SWAP"
		}
		if seen[id] {
			e.Refuse = "repeated action identifier"
			return e
		}
		seen[id] = true
	}
	denom := denomOTH
	amt, _ := new(big.Int).SetString(c.Amount, 10)
	for _, a := range c.Acts {
		e.Saw = append(e.Saw, amt.String()+denom)
		if a.Name == "SWAP" {
			if !swapRegistered {
				e.Refuse = "no controller for ACTION_SWAP"
				return e
			}
			denom = denomUSDC
			amt = new(big.Int).Mul(amt, big.NewInt(2))
			continue
		}
		fr := feeRef(amt, a.Fees)
		if fr.Refuse != "" {
			e.Refuse = "fee: " + fr.Refuse
			return e
		}
		if a.Name == "FEEo" && fr.Total.Sign() == 0 {
			e.Open = true // nothing would stay on the account: refusing the recipient outright or executing are both fine
		}
		if a.Name == "FEEo" && fr.Total.Sign() > 0 {
			e.Refuse = "a fee paid to the orbiter account itself never leaves it (C01)"
			return e
		}
		for i, f := range a.Fees {
			if fr.Entries[i].Sign() > 0 {
				e.FeeSends = append(e.FeeSends, fmt.Sprintf("%s %s%s", f.To, fr.Entries[i], denom))
			}
		}
		amt = new(big.Int).Sub(amt, fr.Total)
	}
	e.Final = sdk.NewCoin(denom, sdkIntFromBig(amt))
	// route acceptance (third-party rules the property does not fix): CCTP burns only the minting denom,
	// the Hyperlane collateral token T0 is uusdc. These are refused by the bridges, which is fine.
	if c.Fwd.Kind != "internal" && denom != denomUSDC {
		e.Refuse = "route does not accept " + denom
	}
	return e
}

func init() { register("C06", checkC06) }

func checkC06(tier string) *Report {
	rep := NewReport("C06", tier, "exploration")
	rep.Rule = "all action lists of length 0..3 over {FEE(bps 3333), FEE(fixed 2), SWAP(test controller: x uother -> 2x uusdc)} × {internal, cctp, hyp} × amounts {1,3,10000,10001}, executed with and without the SWAP controller registered; non-trivial = the list is non-empty"
	rep.Assumptions = []string{
		"INSTRUMENTED stand (second keeper over the same store, decorated dependencies); the extra controller is harness code registered through the keeper's own SetActionControllers",
		"thorough additionally starts every case from each state of a depth-1 prefix (pauses, deposits, parameter change)",
	}
	nw := numWorkers()
	worlds, err := buildWorlds(nw)
	if err != nil {
		rep.HarnessError("fixture: %v", err)
		return rep
	}
	byWorld := map[*World][2]*Instr{}
	for _, w := range worlds {
		a, err := NewInstr(w, true)
		if err != nil {
			rep.HarnessError("instr: %v", err)
			return rep
		}
		byWorld[w] = [2]*Instr{a, nil}
	}
	// separate worlds for the deployed controller set (the swap stand registers a test type in its app's registry)
	plain, err := buildWorlds(nw)
	if err != nil {
		rep.HarnessError("fixture: %v", err)
		return rep
	}
	plainInstr := map[*World]*Instr{}
	for _, w := range plain {
		in, err := NewInstr(w, false)
		if err != nil {
			rep.HarnessError("instr: %v", err)
			return rep
		}
		plainInstr[w] = in
	}
	cases := worlds[0].c06Cases()
	var prefixes [][]Op
	prefixes = append(prefixes, nil)
	if tier == "thorough" {
		w0 := worlds[0]
		for _, op := range []Op{w0.OpDeposit(w0.Orb, denomOTH, 3), w0.OpDeposit(w0.Orb, denomIGP, 9), w0.OpUpdateParams(8), w0.OpPauseProtocol("PROTOCOL_IBC"),
			w0.OpRecv("prior", NewPkt("channel-0", denomOTH, "77", w0.Orb.String(), MemoJSON(w0.FwdInternal(w0.Bob), swapActionJSON)))} {
			prefixes = append(prefixes, []Op{op})
		}
	}
	rep.Extra["cases"] = len(cases)
	rep.Extra["prefix_states"] = len(prefixes)

	run := func(w *World, in *Instr, swapReg bool, c c06Case, prefix []Op) {
		ctx := Branch(w.Ctx)
		var plab []string
		for _, op := range prefix {
			if op.Pkt != nil {
				in.Rec.Reset(nil, "")
				RecvOn(in.Stack, ctx, *op.Pkt)
			} else {
				w.Apply(ctx, op)
			}
			plab = append(plab, op.Label)
		}
		before := w.Snapshot(ctx)
		statsBefore, _ := w.exportedStats(ctx, nil)
		if in.Swap != nil {
			in.Swap.Seen = nil
		}
		r := in.Recv(ctx, c.Pkt, nil, "")
		rep.Count("evaluations", 1)
		exp := c06Interp(c, swapReg)
		sig := fmt.Sprintf("swapRegistered=%v prefix=%v case=%s", swapReg, plab, c.Label)
		group := fmt.Sprintf("swap=%v", swapReg)
		pkt := c.Pkt
		replay := mustJSON(map[string]any{"ops": append(append([]Op{}, prefix...), Op{Label: c.Label, Pkt: &pkt}), "note": "instrumented stand with swapRegistered=" + fmt.Sprint(swapReg)})
		if len(c.Acts) > 0 {
			rep.Distinct(sig)
		}
		if r.Panic != "" {
			rep.Violate(Violation{Kind: "panic", Group: group, Sig: sig, Replay: replay, What: "panic " + r.Panic + " in " + sig})
			return
		}
		if exp.Refuse != "" {
			rep.Outcome("expected-refusal")
			if r.Success {
				rep.Violate(Violation{Kind: "executed-although-must-be-refused", Group: group, Sig: sig, Replay: replay,
					What: fmt.Sprintf("payload executed (success ack) although it must be refused: %s [%s]", exp.Refuse, sig)})
			}
			return
		}
		if !r.Success && exp.Open {
			rep.Outcome("open-case-refused")
			return
		}
		if !r.Success {
			rep.Outcome("unexpected-refusal")
			rep.Violate(Violation{Kind: "refused-although-valid", Group: group, Sig: sig, Replay: replay,
				What: fmt.Sprintf("valid action list refused: %s [%s]", r.AckErr(), sig)})
			return
		}
		rep.Outcome("executed")
		// (1) every action saw its predecessor's result
		var feeSends []string
		for _, cl := range in.Rec.Find("bank.SendCoins") {
			// args: "from -> to coins"
			parts := strings.Split(cl.Args, " ")
			feeSends = append(feeSends, parts[2]+" "+parts[3])
		}
		if strings.Join(feeSends, ";") != strings.Join(exp.FeeSends, ";") {
			rep.Violate(Violation{Kind: "fee-not-on-running-amount", Group: group, Sig: sig, Replay: replay,
				What: fmt.Sprintf("fee sends %v, reference interpreter expects %v [%s]", feeSends, exp.FeeSends, sig)})
		}
		if in.Swap != nil {
			var sawSwap []string
			for _, cn := range in.Swap.Seen {
				sawSwap = append(sawSwap, cn.Amount.String()+cn.Denom)
			}
			var want []string
			for i, a := range c.Acts {
				if a.Name == "SWAP" {
					want = append(want, exp.Saw[i])
				}
			}
			if strings.Join(sawSwap, ";") != strings.Join(want, ";") {
				rep.Violate(Violation{Kind: "action-saw-wrong-coin", Group: group, Sig: sig, Replay: replay,
					What: fmt.Sprintf("SWAP saw %v, reference interpreter expects %v [%s]", sawSwap, want, sig)})
			}
		}
		// (2) the recorded bridge / bank request carries exactly the final coin
		var got string
		n := 0
		for _, cl := range in.Rec.Calls {
			switch m := cl.Msg.(type) {
			case *cctptypes.MsgDepositForBurn:
				got, n = m.Amount.String()+m.BurnToken, n+1
			case *cctptypes.MsgDepositForBurnWithCaller:
				got, n = m.Amount.String()+m.BurnToken, n+1
			case *warptypes.MsgRemoteTransfer:
				got, n = m.Amount.String()+denomUSDC, n+1 // token T0's origin denom
			case *banktypes.MsgSend:
				got, n = m.Amount.String(), n+1
			}
		}
		if n != 1 || got != exp.Final.String() {
			rep.Violate(Violation{Kind: "forwarded-coin-not-final-coin", Group: group, Sig: sig, Replay: replay,
				What: fmt.Sprintf("%d route requests recorded carrying %q, reference interpreter expects exactly one carrying %s [%s]", n, got, exp.Final, sig)})
		}
		// (3) the ledger agrees: sink got the final coin
		after := w.Snapshot(ctx)
		bal, sup := LedgerDelta(before, after)
		var sink string
		switch c.Fwd.Kind {
		case "internal":
			sink = bal[w.Bob.String()+"|"+exp.Final.Denom]
		case "hyp":
			sink = bal[moduleAddr("warp").String()+"|"+exp.Final.Denom]
		case "cctp":
			// supply: swap is supply-neutral (alice/carol are ordinary accounts); burn reduces supply
			sink = strings.TrimPrefix(sup[exp.Final.Denom], "-")
		}
		if sink != exp.Final.Amount.String() {
			rep.Violate(Violation{Kind: "sink-did-not-receive-final-coin", Group: group, Sig: sig, Replay: replay,
				What: fmt.Sprintf("route sink received %q of %s, expected %s [%s] (bal=%s supply=%s)", sink, exp.Final.Denom, exp.Final.Amount, sig, bal, sup)})
		}
		// (4) statistics: one entry when the denom is unchanged, two when it changed
		statsAfter, _ := w.exportedStats(ctx, nil)
		added := diffStats(statsBefore, statsAfter)
		dp, dc := c.Fwd.destID()
		route := fmt.Sprintf("1:channel-0|%d:%s", dp, dc)
		var wantStats []string
		if exp.Final.Denom == denomOTH {
			wantStats = []string{fmt.Sprintf("A %s|%s +in=%s +out=%s", route, denomOTH, c.Amount, exp.Final.Amount)}
		} else {
			wantStats = []string{fmt.Sprintf("A %s|%s +in=%s +out=0", route, denomOTH, c.Amount), fmt.Sprintf("A %s|%s +in=0 +out=%s", route, denomUSDC, exp.Final.Amount)}
		}
		wantStats = append(wantStats, fmt.Sprintf("C %s +n=1", route))
		if strings.Join(added, ";") != strings.Join(sortedCopy(wantStats), ";") {
			rep.Violate(Violation{Kind: "statistics-not-two-entries", Group: group, Sig: sig, Replay: replay,
				What: fmt.Sprintf("statistics delta %v, expected %v [%s]", added, sortedCopy(wantStats), sig)})
		}
		rep.Count("traces_validated_against_impl", 1)
	}

	type job struct {
		c  c06Case
		p  []Op
		sw bool
	}
	var jobs []job
	for _, p := range prefixes {
		for _, c := range cases {
			jobs = append(jobs, job{c, p, true})
		}
	}
	parallelFor(worlds, len(jobs), func(w *World, i int) { run(w, byWorld[w][0], true, jobs[i].c, jobs[i].p) })
	// deployed controller set: no prefix with swap payloads
	var jobs2 []job
	for _, c := range cases {
		jobs2 = append(jobs2, job{c, nil, false})
	}
	parallelFor(plain, len(jobs2), func(w *World, i int) { run(w, plainInstr[w], false, jobs2[i].c, nil) })
	for i := 0; i < len(cases); i += len(cases) / 6 {
		e := c06Interp(cases[i], true)
		rep.Sample(map[string]any{"case": cases[i].Label, "interpreter": map[string]any{"refuse": e.Refuse, "saw": e.Saw, "fee_sends": len(e.FeeSends), "final": e.Final.String()}})
	}
	rep.Guard(rep.Outcomes["executed"] > 50 && rep.Outcomes["expected-refusal"] > 50, "outcome classes missing: %v", rep.Outcomes)
	return rep
}

func sdkIntFromBig(b *big.Int) math.Int { return math.NewIntFromBigInt(b) }

// diffStats turns two canonical exports into "+in/+out/+n" deltas per key.
func diffStats(before, after []string) []string {
	parse := func(ls []string) map[string][2]*big.Int {
		m := map[string][2]*big.Int{}
		for _, l := range ls {
			f := strings.Fields(l)
			if f[0] == "A" {
				in, _ := new(big.Int).SetString(strings.TrimPrefix(f[2], "in="), 10)
				out, _ := new(big.Int).SetString(strings.TrimPrefix(f[3], "out="), 10)
				m["A "+f[1]] = [2]*big.Int{in, out}
			} else {
				n, _ := new(big.Int).SetString(strings.TrimPrefix(f[2], "n="), 10)
				m["C "+f[1]] = [2]*big.Int{n, nil}
			}
		}
		return m
	}
	b, a := parse(before), parse(after)
	var out []string
	for k, v := range a {
		old, ok := b[k]
		if !ok {
			old = [2]*big.Int{new(big.Int), new(big.Int)}
		}
		if strings.HasPrefix(k, "A ") {
			di, do := new(big.Int).Sub(v[0], old[0]), new(big.Int).Sub(v[1], old[1])
			if di.Sign() != 0 || do.Sign() != 0 {
				out = append(out, fmt.Sprintf("%s +in=%s +out=%s", k, di, do))
			}
		} else {
			dn := new(big.Int).Sub(v[0], old[0])
			if dn.Sign() != 0 {
				out = append(out, fmt.Sprintf("%s +n=%s", k, dn))
			}
		}
	}
	for k := range b {
		if _, ok := a[k]; !ok {
			out = append(out, k+" REMOVED")
		}
	}
	return sortedCopy(out)
}

func sortedCopy(s []string) []string {
	o := append([]string{}, s...)
	sort.Strings(o)
	return o
}
