package simapp

// C08 — a paused protocol or destination is never forwarded to; others are unaffected.
// E1 to FIXPOINT over all pause/unpause messages, pauseModel in lock-step, probes + queries in every state.

import (
	"fmt"
	"sort"
	"strings"

	sdk "github.com/cosmos/cosmos-sdk/types"
	"github.com/cosmos/cosmos-sdk/types/query"
)

type pauseModel struct {
	P  map[string]bool // protocol name
	CC map[string]bool // "PROTO|counterparty"
}

func (m pauseModel) clone() pauseModel {
	n := pauseModel{P: map[string]bool{}, CC: map[string]bool{}}
	for k := range m.P {
		n.P[k] = true
	}
	for k := range m.CC {
		n.CC[k] = true
	}
	return n
}

func (m pauseModel) String() string {
	var p, c []string
	for k := range m.P {
		p = append(p, k)
	}
	for k := range m.CC {
		c = append(c, k)
	}
	sort.Strings(p)
	sort.Strings(c)
	return "P=" + strings.Join(p, ",") + " CC=" + strings.Join(c, ",")
}

var supportedProtocols = map[string]bool{"PROTOCOL_IBC": true, "PROTOCOL_CCTP": true, "PROTOCOL_HYPERLANE": true, "PROTOCOL_INTERNAL": true}

// validCP: counterparty ids the C08 alphabet uses are either plainly valid or plainly invalid;
// borderline spellings are C20's subject and deliberately absent here.
func c08ValidCP(proto, cp string) bool {
	if cp == "" || len(cp) > 32 {
		return false
	}
	switch proto {
	case "PROTOCOL_CCTP", "PROTOCOL_HYPERLANE":
		for _, r := range cp {
			if r < '0' || r > '9' {
				return false
			}
		}
		return len(cp) <= 9 && (cp == "0" || cp[0] != '0')
	case "PROTOCOL_INTERNAL":
		return true
	case "PROTOCOL_IBC":
		return strings.HasPrefix(cp, "channel-") && len(cp) > 8
	}
	return false
}

// adminVerdict: what the PROPERTY demands of an admin message in a given state.
//   Must = "fail"    the message must fail (non-authority signer) and change nothing;
//   Must = "succeed" valid content, every named element changes: must succeed, post-state = Target;
//   Must = "either"  valid content but some named element is already in the requested state (or repeated in the
//                    batch): the property only says the sets are left unchanged / a batch is applied entirely or
//                    not at all — it may fail (nothing changes) or succeed (post-state = Target, the whole batch);
//   Must = "free"    content whose validity the property does not fix (unknown names, malformed or over-long ids,
//                    more than 100 ids, empty batch): it may fail (nothing changes) or succeed (the model then
//                    takes the post-state from the queries and keeps checking enforcement <=> queries).
type adminVerdict struct {
	Must   string
	Target pauseModel
}

func (m pauseModel) verdict(w *World, s *MsgSpec) adminVerdict {
	if s.Signer != w.Authority {
		return adminVerdict{"fail", m}
	}
	switch s.RPC {
	case "PauseProtocol", "UnpauseProtocol":
		if !supportedProtocols[s.Proto] {
			return adminVerdict{"free", m}
		}
		n := m.clone()
		if s.RPC == "PauseProtocol" {
			n.P[s.Proto] = true
		} else {
			delete(n.P, s.Proto)
		}
		if m.P[s.Proto] == (s.RPC == "PauseProtocol") {
			return adminVerdict{"either", n} // redundant
		}
		return adminVerdict{"succeed", n}
	case "PauseCrossChains", "UnpauseCrossChains":
		if !supportedProtocols[s.Proto] || len(s.CPs) > 100 || len(s.CPs) == 0 {
			return adminVerdict{"free", m}
		}
		for _, cp := range s.CPs {
			if !c08ValidCP(s.Proto, cp) {
				return adminVerdict{"free", m}
			}
		}
		n := m.clone()
		redundant := false
		seen := map[string]bool{}
		for _, cp := range s.CPs {
			k := s.Proto + "|" + cp
			if seen[k] || m.CC[k] == (s.RPC == "PauseCrossChains") {
				redundant = true
			}
			seen[k] = true
			if s.RPC == "PauseCrossChains" {
				n.CC[k] = true
			} else {
				delete(n.CC, k)
			}
		}
		if redundant {
			return adminVerdict{"either", n}
		}
		return adminVerdict{"succeed", n}
	}
	return adminVerdict{"free", m}
}

// step: the model after the message, given whether it succeeded.
func (m pauseModel) step(w *World, s *MsgSpec, succeeded bool, post sdk.Context) pauseModel {
	v := m.verdict(w, s)
	if !succeeded {
		return m
	}
	if v.Must == "free" || v.Must == "fail" {
		if q, err := w.pauseSetsFromQueries(post); err == nil {
			return q
		}
		return m
	}
	return v.Target
}

// predict keeps the old three-valued interface for callers that only embed the pause model (C09):
// (must succeed?, target, outcome-not-fixed?)
func (m pauseModel) predict(w *World, s *MsgSpec) (bool, pauseModel, bool) {
	v := m.verdict(w, s)
	switch v.Must {
	case "succeed":
		return true, v.Target, false
	case "fail":
		return false, m, false
	}
	return false, m, true
}

// modelFromQueries reads the pause sets through the query service (used for resync and comparison).
func (w *World) pauseSetsFromQueries(ctx sdk.Context) (pauseModel, error) {
	m := pauseModel{P: map[string]bool{}, CC: map[string]bool{}}
	ps, err := w.QPausedProtocols(ctx)
	if err != nil {
		return m, err
	}
	for _, p := range ps {
		m.P[p] = true
	}
	for p := range supportedProtocols {
		ids, err := w.QPausedCrossChainsWalk(ctx, p, 64) // follow next-keys: the default page holds only 100 ids
		if err != nil {
			return m, err
		}
		for _, id := range ids {
			m.CC[p+"|"+id] = true
		}
	}
	return m, nil
}

type c08Dest struct {
	Proto, CP string
	Fwd       func(w *World) Fwd
}

func c08Dests() []c08Dest {
	return []c08Dest{
		{"PROTOCOL_CCTP", "0", func(w *World) Fwd { return w.FwdCCTP(0) }},
		{"PROTOCOL_CCTP", "1", func(w *World) Fwd { return w.FwdCCTPCaller(1) }},
		{"PROTOCOL_HYPERLANE", "1", func(w *World) Fwd { return w.FwdHyp(1) }},
		{"PROTOCOL_HYPERLANE", "2", func(w *World) Fwd { return w.FwdHyp(2) }},
		{"PROTOCOL_INTERNAL", "noble", func(w *World) Fwd { return w.FwdInternal(w.Bob) }},
	}
}

func c08Alphabet(w *World, tier string) []Op {
	var ops []Op
	protos := []string{"PROTOCOL_CCTP", "PROTOCOL_HYPERLANE"}
	if tier == "thorough" {
		protos = []string{"PROTOCOL_IBC", "PROTOCOL_CCTP", "PROTOCOL_HYPERLANE", "PROTOCOL_INTERNAL"}
	}
	for _, p := range append(append([]string{}, protos...), "PROTOCOL_UNSUPPORTED", "PROTOCOL_FOO", "2", "", "4294967298" /* 2^32+2: no int32 */) {
		ops = append(ops, w.OpPauseProtocol(p), w.OpUnpauseProtocol(p))
	}
	type batch struct {
		p   string
		cps []string
	}
	batches := []batch{
		{"PROTOCOL_CCTP", []string{"0"}}, {"PROTOCOL_HYPERLANE", []string{"1"}}, {"PROTOCOL_INTERNAL", []string{"noble"}},
		{"PROTOCOL_CCTP", []string{"0", "0"}},         // internal duplicate
		{"PROTOCOL_CCTP", []string{"0", "x"}},         // one invalid member after a valid one
		{"PROTOCOL_CCTP", []string{"0", ""}},          // empty member
		{"PROTOCOL_CCTP", []string{}},                 // empty batch
		{"PROTOCOL_FOO", []string{"0"}},               // unknown protocol
		{"PROTOCOL_UNSUPPORTED", []string{"0"}},
		{"PROTOCOL_CCTP", []string{"0", strings.Repeat("1", 33)}}, // over-long member
	}
	if tier == "thorough" {
		batches = append(batches,
			batch{"PROTOCOL_CCTP", []string{"1"}}, batch{"PROTOCOL_HYPERLANE", []string{"2"}},
			batch{"PROTOCOL_CCTP", []string{"0", "1"}}, batch{"PROTOCOL_CCTP", []string{"1", "0"}},
			batch{"PROTOCOL_HYPERLANE", []string{"1", "2"}},
			batch{"PROTOCOL_HYPERLANE", []string{"2", "1", "2"}},
			batch{"PROTOCOL_IBC", []string{"channel-0"}},
			batch{"PROTOCOL_IBC", []string{"0"}},
			batch{"PROTOCOL_HYPERLANE", []string{}},
		)
		var b100, b101 []string
		for i := 0; i < 101; i++ {
			if i < 100 {
				b100 = append(b100, fmt.Sprint(1000+i))
			}
			b101 = append(b101, fmt.Sprint(1000+i))
		}
		batches = append(batches, batch{"PROTOCOL_CCTP", b100}, batch{"PROTOCOL_CCTP", b101})
	} else {
		batches = append(batches, batch{"PROTOCOL_CCTP", []string{"0", "1"}}) // partially-paused batch arises from states with 0 paused
	}
	for _, b := range batches {
		po, uo := w.OpPauseCC(b.p, b.cps...), w.OpUnpauseCC(b.p, b.cps...)
		if len(b.cps) > 5 {
			po.Label = fmt.Sprintf("PauseCrossChains(%s,%d ids)", b.p, len(b.cps))
			uo.Label = fmt.Sprintf("UnpauseCrossChains(%s,%d ids)", b.p, len(b.cps))
		}
		ops = append(ops, po, uo)
	}
	// the same messages from a non-authority signer (a sample of each RPC)
	n := len(ops)
	seenRPC := map[string]int{}
	for i := 0; i < n; i++ {
		if seenRPC[ops[i].Msg.RPC] < 2 {
			seenRPC[ops[i].Msg.RPC]++
			ops = append(ops, withSigner(ops[i], w.Mallory.String(), "mallory"))
		}
	}
	return ops
}

func init() { register("C08", checkC08) }

func checkC08(tier string) *Report {
	rep := NewReport("C08", tier, "model_checking")
	rep.Rule = "states = distinct full-store hashes reachable by the pause/unpause alphabet (fixpoint); a case is non-trivial when the admin op changed state or a probe was refused by a pause"
	rep.Assumptions = []string{
		"baseapp per-message rollback emulated: handler from the app's MsgServiceRouter run on a CacheContext, written only on success (DESIGN §1.3.2)",
		"IBC core discard-on-error emulated around the transfer stack's OnRecvPacket (DESIGN §1.3.1)",
		"counterparty ids in the alphabet are plainly valid or plainly invalid; borderline spellings belong to C20",
	}
	worlds, err := buildWorlds(numWorkers())
	if err != nil {
		rep.HarnessError("fixture: %v", err)
		return rep
	}
	w0 := worlds[0]
	alpha := c08Alphabet(w0, tier)
	dests := c08Dests()
	// revisit probing only where the graph is small (quick); in the thorough universe every edge is probed once more by the
	// tour on persistent instances, which subsumes it (and probing both ways costs hours of CPU there)
	x := &Explorer{Rep: rep, Prefix: alpha, Depth: -1, Revisit: tier != "thorough", RecordGraph: true}
	x.ModelInit = func(w *World) any { return pauseModel{P: map[string]bool{}, CC: map[string]bool{}} }
	x.ModelStep = func(w *World, model any, op Op, res OpResult, pre, post sdk.Context) any {
		return model.(pauseModel).step(w, op.Msg, res.Succeeded(), post)
	}
	x.OnTransition = func(wk *Worker, n Node, op Op, res OpResult, pre, post sdk.Context, pm, qm any) {
		w := wk.W
		m := pm.(pauseModel)
		v := m.verdict(w, op.Msg)
		got := res.Succeeded()
		replay := func() []byte {
			if v.Must == "succeed" || v.Must == "fail" {
				return mustJSON(map[string]any{"ops": append(n.Ops(alpha), op), "expect": []replayExpect{{Kind: "last_success", Want: v.Must == "succeed"}, {Kind: "no_panic", Want: true}}})
			}
			return mustJSON(map[string]any{"ops": append(n.Ops(alpha), op)})
		}
		sig := strings.Join(append(pathLabels(alpha, n.Path), op.Label), " ; ")
		if res.Msg != nil && res.Msg.Panic != "" {
			rep.Violate(Violation{Kind: "admin-panic", What: "admin message panicked: " + res.Msg.Panic + " after " + sig, Sig: sig, Replay: replay()})
			return
		}
		if (v.Must == "succeed" && !got) || (v.Must == "fail" && got) {
			rep.Violate(Violation{Kind: "admin-outcome", Sig: sig, Replay: replay(),
				What: fmt.Sprintf("model %s: %s must %s, got success=%v (err=%q)", m, op.Label, v.Must, got, res.Msg.Err)})
		}
		rep.Outcome("verdict-" + v.Must)
		preKey, postKey := w.StateKey(pre), w.StateKey(post)
		if !got {
			rep.Outcome("admin-refused")
			if preKey != postKey {
				rep.Violate(Violation{Kind: "failed-op-changed-state", Sig: sig, Replay: replay(),
					What: fmt.Sprintf("failed %s changed state: %v", op.Label, w.DiffStores(pre, post))})
			}
			return
		}
		rep.Outcome("admin-applied")
		rep.Distinct("op:" + m.String() + ">" + op.Label)
		// successful: only the orbiter store may change, and the sets must be exactly the model's
		for _, d := range w.DiffStores(pre, post) {
			if !strings.HasPrefix(d, "orbiter/") {
				rep.Violate(Violation{Kind: "admin-foreign-write", Sig: sig, Replay: replay(), What: "admin op wrote outside the orbiter store: " + d})
				break
			}
		}
		q, err := w.pauseSetsFromQueries(post)
		if err != nil {
			rep.Violate(Violation{Kind: "query-error", Sig: sig, Replay: replay(), What: "pause queries failed: " + err.Error()})
			return
		}
		if qs, ms := q.String(), qm.(pauseModel).String(); qs != ms {
			rep.Violate(Violation{Kind: "sets-differ-from-model", Sig: sig, Replay: replay(),
				What: fmt.Sprintf("after %s queries report %s but model has %s", op.Label, qs, ms)})
		}
		rep.Count("traces_validated_against_impl", 1)
	}
	x.OnState = func(wk *Worker, n Node, ctx sdk.Context, model any) {
		w := wk.W
		m := model.(pauseModel)
		sigBase := strings.Join(pathLabels(alpha, n.Path), " ; ")
		rep.Sample(map[string]any{"path": pathLabels(alpha, n.Path), "model": m.String()})
		// --- queries = model
		q, err := w.pauseSetsFromQueries(ctx)
		if err != nil || q.String() != m.String() {
			rep.Violate(Violation{Kind: "sets-differ-from-model", Sig: sigBase, Replay: mustJSON(map[string]any{"ops": n.Ops(alpha)}),
				What: fmt.Sprintf("queries report %s (err=%v) but model has %s", q, err, m)})
		}
		for p := range supportedProtocols {
			got, err := w.QIsProtocolPaused(ctx, p)
			if err != nil || got != m.P[p] {
				rep.Violate(Violation{Kind: "is-protocol-paused", Sig: sigBase + "|" + p, Replay: mustJSON(map[string]any{"ops": n.Ops(alpha)}),
					What: fmt.Sprintf("IsProtocolPaused(%s)=%v err=%v, model %v", p, got, err, m.P[p])})
			}
			// pagination walk with page size 1 and 2 visits exactly the model's set
			for _, lim := range []uint64{1, 2} {
				ids, err := w.QPausedCrossChainsWalk(ctx, p, lim)
				var want []string
				for k := range m.CC {
					if strings.HasPrefix(k, p+"|") {
						want = append(want, strings.TrimPrefix(k, p+"|"))
					}
				}
				sort.Strings(want)
				gotS := append([]string{}, ids...)
				sort.Strings(gotS)
				if err != nil || strings.Join(gotS, ",") != strings.Join(want, ",") {
					rep.Violate(Violation{Kind: "paused-cc-pagination", Sig: sigBase + "|" + p, Replay: mustJSON(map[string]any{"ops": n.Ops(alpha)}),
						What: fmt.Sprintf("PausedCrossChains(%s) walk limit=%d returned %v err=%v, model %v", p, lim, ids, err, want)})
				}
			}
			rep.Count("queries", 4)
		}
		// reverse + count_total page
		for p := range supportedProtocols {
			ids, pr, err := w.QPausedCrossChains(ctx, p, &query.PageRequest{Reverse: true, CountTotal: true, Limit: 1000})
			cnt := 0
			for k := range m.CC {
				if strings.HasPrefix(k, p+"|") {
					cnt++
				}
			}
			if err != nil || len(ids) != cnt || (pr != nil && pr.Total != uint64(cnt)) {
				rep.Violate(Violation{Kind: "paused-cc-total", Sig: sigBase + "|" + p, Replay: mustJSON(map[string]any{"ops": n.Ops(alpha)}),
					What: fmt.Sprintf("PausedCrossChains(%s,reverse,total) returned %d ids total=%v err=%v, model %d", p, len(ids), pr, err, cnt)})
			}
		}
		for _, d := range dests {
			got, err := w.QIsCrossChainPaused(ctx, d.Proto, d.CP)
			if err != nil || got != m.CC[d.Proto+"|"+d.CP] {
				rep.Violate(Violation{Kind: "is-cc-paused", Sig: sigBase + "|" + d.Proto + d.CP, Replay: mustJSON(map[string]any{"ops": n.Ops(alpha)}),
					What: fmt.Sprintf("IsCrossChainPaused(%s,%s)=%v err=%v, model %v", d.Proto, d.CP, got, err, m.CC[d.Proto+"|"+d.CP])})
			}
		}
		// --- enforcement: executed <=> neither P nor (P,c) paused
		for _, d := range dests {
			for _, fee := range [][]FeeSpec{nil, {{To: w.Fee1.String(), Bps: 100}}} {
				pkt := NewPkt("channel-0", denomUSDC, "1000", w.Orb.String(), Memo(d.Fwd(w), fee))
				b := Branch(ctx)
				pre := w.StateKey(b)
				shouldRun := !m.P[d.Proto] && !m.CC[d.Proto+"|"+d.CP]
				r := w.Recv(b, pkt)
				rep.Count("probes", 1)
				psig := sigBase + " ; probe " + d.Proto + ":" + d.CP
				replay := mustJSON(map[string]any{"ops": append(n.Ops(alpha), Op{Label: "probe", Pkt: &pkt}), "expect": []replayExpect{{Kind: "last_success", Want: shouldRun}, {Kind: "no_panic", Want: true}}})
				if r.Panic != "" {
					rep.Violate(Violation{Kind: "probe-panic", Sig: psig, Replay: replay, What: "probe panicked: " + r.Panic})
					continue
				}
				if shouldRun && !r.Success {
					rep.Violate(Violation{Kind: "unpaused-refused", Sig: psig, Replay: replay,
						What: fmt.Sprintf("model %s: transfer to %s:%s should execute, got error ack %s", m, d.Proto, d.CP, r.AckErr())})
				}
				if !shouldRun {
					rep.Distinct("refused:" + m.String() + ">" + d.Proto + d.CP)
					if r.Success {
						rep.Violate(Violation{Kind: "paused-executed", Sig: psig, Replay: replay,
							What: fmt.Sprintf("model %s: transfer to paused %s:%s was executed (success ack)", m, d.Proto, d.CP)})
					} else {
						// (why it was refused is not judged by its wording: the same probe is executed in every state
						// where nothing relevant is paused, so a refusal here is attributable to the pause)
						if w.StateKey(b) != pre {
							rep.Violate(Violation{Kind: "refused-left-trace", Sig: psig, Replay: replay, What: "refused transfer changed state"})
						}
					}
					rep.Outcome("probe-refused-by-pause")
				} else {
					rep.Outcome("probe-executed")
				}
			}
		}
	}
	nodes := x.RunOn(worlds)
	x.Tour(len(worlds)) // every edge of the reachable graph once more, on instances that live through ONE linear history
	c08Pagination(rep, worlds[0], tier == "thorough")
	want := int64(32)
	if tier == "thorough" {
		want = 1024
	}
	rep.Guard(rep.Counters["states"] >= want, "expected >= %d reachable pause states, got %d", want, rep.Counters["states"])
	rep.Guard(rep.Outcomes["probe-refused-by-pause"] > 0 && rep.Outcomes["probe-executed"] > 0 && rep.Outcomes["admin-refused"] > 0, "outcome classes missing: %v", rep.Outcomes)
	rep.Extra["fixpoint_reached"] = rep.Exhaustive
	rep.Extra["nodes"] = len(nodes)
	return rep
}

// c08Pagination: "the pause queries report exactly the current sets" for a client that pages. States: every subset of a
// universe of identifiers some of which are prefixes of others ("1", "10", "100" — ordinary CCTP / Hyperlane domains),
// each reached by one PauseCrossChains batch of the authority; in each state the listing is walked by next-key with
// every page size up to the size of the set + 1, forwards and in reverse, and with offsets; every walk must visit each
// paused identifier exactly once and terminate.
func c08Pagination(rep *Report, w *World, full bool) {
	universe := []string{"1", "10", "100", "2", "20"}
	protos := []string{"PROTOCOL_CCTP"}
	if full {
		universe = append(universe, "3")
		protos = append(protos, "PROTOCOL_HYPERLANE")
	}
	states := 0
	for _, proto := range protos {
		for mask := 1; mask < 1<<len(universe); mask++ {
			var set []string
			for i, id := range universe {
				if mask&(1<<i) != 0 {
					set = append(set, id)
				}
			}
			ctx := Branch(w.Ctx)
			op := w.OpPauseCC(proto, set...)
			if r := w.Apply(ctx, op); !r.Succeeded() {
				rep.HarnessError("pagination phase: %s refused on the initial state", op.Label)
				return
			}
			states++
			want := append([]string{}, set...)
			sort.Strings(want)
			related := false
			for _, a := range set {
				for _, b := range set {
					if a != b && strings.HasPrefix(b, a) {
						related = true
					}
				}
			}
			for _, reverse := range []bool{false, true} {
				for lim := uint64(1); lim <= uint64(len(set))+1; lim++ {
					var got []string
					var key []byte
					pages, terminated := 0, false
					var qerr error
					for pages = 0; pages < 2*len(set)+4; pages++ {
						ids, pr, err := w.QPausedCrossChains(ctx, proto, &query.PageRequest{Key: key, Limit: lim, Reverse: reverse})
						if err != nil {
							qerr = err
							break
						}
						got = append(got, ids...)
						if pr == nil || len(pr.NextKey) == 0 {
							terminated = true
							break
						}
						key = pr.NextKey
					}
					rep.Count("queries", int64(pages+1))
					rep.Count("evaluations", 1)
					gs := append([]string{}, got...)
					sort.Strings(gs)
					if qerr != nil || !terminated || strings.Join(gs, ",") != strings.Join(want, ",") {
						sig := fmt.Sprintf("paused-cross-chains walk %s set=%v limit=%d reverse=%v prefix-related-identifiers=%v", proto, set, lim, reverse, related)
						rep.Violate(Violation{Kind: "paused-cc-walk-wrong", Group: fmt.Sprintf("reverse=%v prefix-related=%v", reverse, related), Sig: sig,
							Replay: mustJSON(map[string]any{"ops": []Op{op}, "query": "PausedCrossChains", "protocol": proto, "limit": lim, "reverse": reverse}),
							What: fmt.Sprintf("PausedCrossChains(%s) followed by next-key with limit=%d reverse=%v visited %v (terminated=%v err=%v); paused are %v", proto, lim, reverse, got, terminated, qerr, want)})
					} else {
						rep.Outcome("paused-cc-walk-exact")
						rep.Distinct(fmt.Sprintf("walk:%s:%v:%d:%v", proto, set, lim, reverse))
					}
				}
				// offsets (first page only: the SDK paginator does not combine offset with key)
				for off := uint64(0); off <= uint64(len(set)); off++ {
					ids, _, err := w.QPausedCrossChains(ctx, proto, &query.PageRequest{Offset: off, Limit: 1000, Reverse: reverse})
					rep.Count("evaluations", 1)
					exp := append([]string{}, want...)
					if reverse {
						for i, j := 0, len(exp)-1; i < j; i, j = i+1, j-1 {
							exp[i], exp[j] = exp[j], exp[i]
						}
					}
					exp = exp[off:]
					gs := append([]string{}, ids...)
					es := append([]string{}, exp...)
					sort.Strings(gs)
					sort.Strings(es)
					if err != nil || len(ids) != len(exp) || (off == 0 && strings.Join(gs, ",") != strings.Join(es, ",")) {
						rep.Violate(Violation{Kind: "paused-cc-offset-wrong", Sig: fmt.Sprintf("%s set=%v offset=%d reverse=%v", proto, set, off, reverse), Replay: mustJSON(map[string]any{"ops": []Op{op}, "offset": off, "reverse": reverse}),
							What: fmt.Sprintf("PausedCrossChains(%s, offset=%d, reverse=%v) returned %v err=%v; paused are %v", proto, off, reverse, ids, err, want)})
					}
				}
			}
		}
	}
	rep.Extra["pagination_phase_states"] = states
	rep.Guard(rep.Outcomes["paused-cc-walk-exact"] >= 100, "pagination phase vacuous: %v", rep.Outcomes)
}
