package simapp

// C14 — no input makes the receive path panic; malformed payloads are refused.
// E2 with the JSON tree mutator on the FULL application under recover():
// (a) packet level: byte strings, field menus; (b) memo level: ALL single-point mutations (quick) and ALL
// pairs (thorough) of seed payloads; each input on W0 and on three non-initial states.

import (
	"fmt"
	"strings"

	sdk "github.com/cosmos/cosmos-sdk/types"
)

func (w *World) payloadSeeds() map[string]string {
	f1, f2 := w.Fee1.String(), w.Fee2.String()
	fees := map[string][]FeeSpec{
		"nofee": nil,
		"bps":   {{To: f1, Bps: 100}},
		"fixed": {{To: f2, Fixed: "7"}},
		"five":  {{To: f1, Bps: 1}, {To: f2, Bps: 2}, {To: f1, Fixed: "1"}, {To: f2, Fixed: "2"}, {To: f1, Bps: 3}},
		"twofixedsame": {{To: f1, Fixed: "5"}, {To: f1, Fixed: "6"}},
	}
	hypAll := Fwd{Kind: "hyp", Domain: 1, Token: w.TokenT0.Bytes(), Recipient: b32(5), Hook: w.HookH0.Bytes(), HookMeta: "0xabcd", GasLimit: "1", MaxFee: "1uusdc", Passthrough: []byte{1, 2}}
	cctpAll := Fwd{Kind: "cctp", Domain: 0, MintRecipient: b32(9), Caller: b32(3), Passthrough: []byte{1}}
	// Hyperlane routes whose hook chain contains an interchain gas paymaster (as the mailbox's required hook, and named
	// as custom hook): gas limit and max fee reach third-party arithmetic
	hypIGP := w.FwdHypIGP("500uigp")
	hypIGP.GasLimit = "1"
	hypCustomIGP := Fwd{Kind: "hyp", Domain: 1, Token: w.TokenT0.Bytes(), Recipient: b32(5), Hook: w.IgpI1.Bytes(), GasLimit: "1", MaxFee: "500uigp"}
	fw := map[string]Fwd{"cctp": w.FwdCCTP(0), "hyp": w.FwdHyp(1), "internal": w.FwdInternal(w.Bob), "hypAll": hypAll, "cctpAll": cctpAll, "hypIGP": hypIGP, "hypCustomIGP": hypCustomIGP}
	out := map[string]string{}
	for fn, f := range fw {
		for en, fe := range fees {
			if (fn == "hypAll" || fn == "cctpAll" || fn == "hypIGP" || fn == "hypCustomIGP") && en != "bps" {
				continue
			}
			out[fn+"/"+en] = Memo(f, fe)
		}
	}
	// the same payloads with every member under its SECOND JSON name (camelCase): single-point mutations of these reach what
	// needs "the other spelling AND something else" on the snake_case seeds
	for _, n := range []string{"cctp/bps", "hypAll/bps", "internal/fixed"} {
		if m, ok := out[n]; ok {
			out[n+"/camel"] = camelCaseMemo(m)
		}
	}
	// the seeds are also the corpus from which the mutator takes KNOWN members to add to same-shaped objects
	var names, docs []string
	for n := range out {
		names = append(names, n)
	}
	sortStringsInPlace(names)
	for _, n := range names {
		docs = append(docs, out[n])
	}
	setMutationCorpus(docs)
	return out
}

var allTypeURLs = []string{urlCCTP, urlHyp, urlInternal, urlFee, "/cosmos.bank.v1beta1.MsgSend", "/google.protobuf.Any", ""}
var allEnumNames = []string{"PROTOCOL_UNSUPPORTED", "PROTOCOL_IBC", "PROTOCOL_CCTP", "PROTOCOL_HYPERLANE", "PROTOCOL_INTERNAL", "ACTION_UNSUPPORTED", "ACTION_FEE", "ACTION_SWAP", "PROTOCOL_FOO", ""}

func (w *World) c14States() (names []string, build []func(ctx sdk.Context)) {
	names = []string{"W0", "S1(stats near 2^256, params 64)", "S2(pauses)", "S3(deposits+history, stats above MaxInt64)", "S4(fee paid to the address of a module account that does not exist yet)"}
	build = []func(ctx sdk.Context){
		func(ctx sdk.Context) {},
		func(ctx sdk.Context) { w.Apply(ctx, OpEnv("seed-stats-top")); w.Apply(ctx, w.OpUpdateParams(64)) },
		func(ctx sdk.Context) {
			w.Apply(ctx, w.OpPauseProtocol("PROTOCOL_CCTP"))
			w.Apply(ctx, w.OpPauseAction("ACTION_FEE"))
			w.Apply(ctx, w.OpPauseCC("PROTOCOL_HYPERLANE", "1"))
		},
		func(ctx sdk.Context) {
			w.Apply(ctx, w.OpDeposit(w.Orb, denomUSDC, 5))
			w.Apply(ctx, w.OpDeposit(w.Orb, denomIGP, 5000))
			// coins sent straight to a channel's escrow address (anybody can): the escrow then holds more than ICS-20's
			// total-escrow bookkeeping knows, and a counterparty returning that denomination makes ibc-go v8.6.1 PANIC
			// ("negative coin amount") inside the wrapped application — below the orbiter's receive path (hunt H15, seed C14h)
			w.Apply(ctx, w.OpDeposit(w.Escrow1, denomIGP, 7))
			w.Apply(ctx, w.OpUpdateParams(4294967295))
			w.Apply(ctx, OpEnv("seed-stats-int64"))
			w.Apply(ctx, w.OpRecv("t", TransferSpec{"channel-1", denomUSDC, "777", w.Orb.String(), w.FwdHyp(1), nil}.Pkt()))
		},
		func(ctx sdk.Context) {
			// a fee credited to the address the warp module account WILL have creates an ordinary account there; from then on x/auth
			// panics — with a STRING value — whenever the Hyperlane route asks for the module account (hunt H7): a panic below the
			// orbiter whose value is not an error (seed C14i built the acknowledgement from the panic value)
			w.Apply(ctx, w.OpRecv("t", TransferSpec{"channel-1", denomUSDC, "5000", w.Orb.String(), w.FwdInternal(w.Bob), []FeeSpec{{To: moduleAddr("warp").String(), Bps: 100}}}.Pkt()))
		},
	}
	return
}

func (w *World) c14PacketLevel() []Pkt {
	var out []Pkt
	orb := w.Orb.String()
	memo := Memo(w.FwdInternal(w.Bob), []FeeSpec{{To: w.Fee1.String(), Bps: 100}})
	base := NewPkt("channel-1", denomUSDC, "1000", orb, memo)
	denoms := []string{"", "u", "transfer/channel-9/", "transfer/channel-9/x", "transfer/channel-9/1abc", "transfer/channel-9/uusdc", "transfer/channel-9/transfer/channel-3/uatom",
		"ibc/27394FB092D2ECCD56123C74F36E4C1F926001CEADA9CA97EA622B25F41E5EB2", "transfer/channel-9/ibc/27394FB092D2ECCD56123C74F36E4C1F926001CEADA9CA97EA622B25F41E5EB2",
		"transfer/channel-9/" + denomIGP, "transfer/channel-9/" + strings.Repeat("a", 129), "///", "transfer/channel-9//", "transfer/channel-9/u u", "transfer/channel-9/UUSDC", "transfer/channel-9/a-b.c_d:e", "transfer/channel-9/\x00"}
	wide := []string{strings.Repeat("１", 400), strings.Repeat("\U0001F600", 300), "1" + strings.Repeat("\u0301", 700), strings.Repeat("9", 3000)}
	amounts := append([]string{"", "0", "5", "-5", "+5", "0x10", "1_0", "1e3", maxUint256Str, twoTo256, " 1", "abc", "-0", "00", "1.0", "٣"}, wide...)
	var rcvs []string
	for _, e := range encodingsOf(w.Orb) {
		rcvs = append(rcvs, e.S)
	}
	rcvs = append(rcvs, w.Bob.String(), "", "noble1invalid")
	for _, ws := range wide {
		denoms = append(denoms, "transfer/channel-9/"+ws)
		rcvs = append(rcvs, ws, orb+ws)
	}
	for _, d := range denoms {
		for _, a := range amounts {
			p := base
			p.Denom, p.Amount = d, a
			out = append(out, p)
		}
	}
	for _, r := range rcvs {
		for _, s := range []string{defaultSender, "", "x", orb} {
			p := base
			p.Receiver, p.Sender = r, s
			out = append(out, p)
		}
	}
	for _, ch := range [][4]string{{"transfer", "channel-9", "transfer", "channel-1"}, {"transfer", "", "transfer", "channel-1"}, {"", "channel-9", "transfer", "channel-1"},
		{"transfer", "channel-9", "transfer", ""}, {"transfer", "channel-9", "transfer", "channel-"}, {"transfer", "channel-9", "transfer", "channel-x"},
		{"transfer", "channel-9", "transfer", strings.Repeat("c", 65)}, {"transfer", strings.Repeat("c", 65), "transfer", "channel-1"}, {"transfer", "channel-9", "", "channel-1"},
		{"transfer", "channel-9", "transfer", "channel-18446744073709551615"}, {"transfer", "channel-9", "transfer", "channel-18446744073709551616"}, {"transfer", "channel-9", "transfer", "channel-01"},
		{"transfer", "channel-9", "transfer", "channel-0000000000000000000000000000001"}} {
		p := base
		p.SrcPort, p.SrcChan, p.DstPort, p.DstChan = ch[0], ch[1], ch[2], ch[3]
		p.Denom = p.SrcPort + "/" + p.SrcChan + "/uusdc"
		out = append(out, p)
	}
	// memos that are not payload mutations
	for _, m := range []string{"", " ", "null", "[]", "{}", `"orbiter"`, `{"orbiter":null}`, `{"orbiter":[]}`, `{"orbiter":"x"}`, `{"orbiter":{}}`, `{"orbiter":{"forwarding":null}}`,
		`{"orbiter":{"pre_actions":[null]}}`, `{"orbiter":{"pre_actions":[null],"forwarding":` + fmt.Sprintf(`{"protocol_id":"PROTOCOL_INTERNAL","attributes":%s}`, w.FwdInternal(w.Bob).attrsJSON()) + `}}`,
		strings.Repeat("[", 10000), strings.Repeat(`{"orbiter":`, 2000), `{"orbiter":{"forwarding":{"attributes":{"@type":"/google.protobuf.Any","value":{"@type":"/google.protobuf.Any"}}}}}`,
		strings.Repeat("a", 33000)} {
		p := base
		p.Memo = m
		out = append(out, p)
	}
	// extreme-number families (sums / products at the top of the 256-bit range; same and different recipients)
	half := "57896044618658097711785492504343953926634992332820282019728792003956564819968"
	for _, fam := range [][]FeeSpec{
		{{To: w.Fee1.String(), Fixed: half}, {To: w.Fee1.String(), Fixed: half}},
		{{To: w.Fee1.String(), Fixed: half}, {To: strings.ToUpper(w.Fee1.String()), Fixed: half}},
		{{To: w.Fee1.String(), Fixed: half}, {To: w.Fee2.String(), Fixed: half}},
		{{To: w.Fee1.String(), Fixed: maxUint256Str}, {To: w.Fee1.String(), Fixed: "1"}},
		{{To: w.Fee1.String(), Fixed: maxUint256Str}, {To: w.Fee1.String(), Bps: 1}},
		{{To: w.Fee1.String(), Bps: 10000}, {To: w.Fee1.String(), Fixed: maxUint256Str}},
		{{To: w.Fee1.String(), Fixed: maxUint256Str}, {To: w.Fee1.String(), Fixed: maxUint256Str}, {To: w.Fee1.String(), Fixed: maxUint256Str}},
		{{To: w.Orb.String(), Fixed: half}, {To: w.Orb.String(), Fixed: half}},
	} {
		for _, coin := range [][2]string{{denomUSDC, "1"}, {denomUSDC, "1000"}, {denomBIG, maxUint256Str}, {denomBIG, half}} {
			for _, f := range []Fwd{w.FwdInternal(w.Bob), w.FwdCCTP(0)} {
				p := NewPkt("channel-0", coin[0], coin[1], orb, Memo(f, fam))
				out = append(out, p)
			}
		}
	}
	// several independent faults of the same kind in one payload (the error text must not depend on which is met first)
	fa := feeActionJSON([]FeeSpec{{To: w.Fee1.String(), Bps: 100}})
	sa := fmt.Sprintf(`{"id":"ACTION_SWAP","attributes":{"@type":"%s","fees_info":[]}}`, urlFee)
	idAct := func(id string) string { return fmt.Sprintf(`{"id":%s,"attributes":{"@type":"%s","fees_info":[]}}`, id, urlFee) }
	intl := w.FwdInternal(w.Bob)
	for _, m := range []string{
		MemoJSON(intl, fa, sa, sa, fa), MemoJSON(intl, sa, fa, fa, sa), MemoJSON(intl, fa, fa, sa, sa), MemoJSON(intl, idAct("7"), idAct("7"), idAct("9"), idAct("9")),
		MemoJSON(intl, idAct("3"), idAct("4"), idAct("3"), idAct("4")), MemoJSON(intl, idAct("0"), idAct("-1")),
		MemoJSON(intl, feeActionJSON([]FeeSpec{{To: "bad1", Bps: 100}, {To: "bad2", Bps: 100}})), MemoJSON(intl, feeActionJSON([]FeeSpec{{To: w.Fee1.String(), Bps: 0}, {To: w.Fee2.String(), Bps: 10001}})),
		MemoJSON(intl, feeActionJSON([]FeeSpec{{To: w.Fee1.String(), Fixed: "x"}, {To: w.Fee2.String(), Fixed: "y"}})),
		`{"orbiter":{"a":1,"b":2,"forwarding":` + fmt.Sprintf(`{"protocol_id":"PROTOCOL_INTERNAL","attributes":%s}`, intl.attrsJSON()) + `}}`,
		`{"orbiter":{"forwarding":{"c":1,"d":2,"protocol_id":"PROTOCOL_INTERNAL","attributes":` + intl.attrsJSON() + `}}}`,
		`{"x":1,"y":2,"orbiter":{}}`, `{"x":1,"y":2}`,
	} {
		p := base
		p.Memo = m
		out = append(out, p)
	}
	// raw data
	alpha := []byte(`{}[]":,a1 -` + "\x00")
	raws := []string{"", strings.Repeat("{", 70000), `{"denom":{},"amount":[],"sender":1,"receiver":null,"memo":true}`}
	for _, a := range alpha {
		raws = append(raws, string([]byte{a}))
		for _, b := range alpha {
			raws = append(raws, string([]byte{a, b}))
		}
	}
	for _, r := range raws {
		out = append(out, Pkt{SrcPort: "transfer", SrcChan: "channel-9", DstPort: "transfer", DstChan: "channel-1", Raw: []byte(r)})
	}
	return out
}

func init() { register("C14", checkC14) }

func checkC14(tier string) *Report {
	rep := NewReport("C14", tier, "exploration")
	full := tier == "thorough"
	rep.Rule = "memo level: 14 seed payloads (every forwarding type × fee shapes, all optional fields) × ALL single-point structural mutations (quick) / ALL pairs (thorough, on W0) from the JSON tree mutator; packet level: denom × amount, receiver × sender, channel identifier menus, degenerate memos, all byte strings up to length 2 over 12 symbols; every input on W0 and three non-initial states. Non-trivial = distinct inputs that reach the orbiter flow (receiver decodes to the orbiter account)"
	rep.Assumptions = []string{
		"a panic is observed with recover() around the transfer stack's OnRecvPacket (IBC core does not recover; a panic aborts the relayer's whole transaction)",
		"infinite gas meter: out-of-gas panics are not modelled",
		"malformed = not well-formed by the C15 reference predicate (descriptor-driven, independent of the module's validation code)",
	}
	worlds, err := buildWorlds(numWorkers())
	if err != nil {
		rep.HarnessError("fixture: %v", err)
		return rep
	}
	w0 := worlds[0]
	pref, err := w0.newPayloadRef()
	if err != nil {
		rep.HarnessError("payloadRef: %v", err)
		return rep
	}
	stateNames, _ := w0.c14States()
	// per-world state contexts
	type wstate struct{ ctxs []sdk.Context }
	ws := map[*World]*wstate{}
	for _, w := range worlds {
		_, build := w.c14States()
		st := &wstate{}
		for _, b := range build {
			c := Branch(w.Ctx)
			b(c)
			st.ctxs = append(st.ctxs, c)
		}
		ws[w] = st
	}
	type input struct {
		label  string
		pkt    Pkt
		states []int
	}
	var inputs []input
	all := []int{0, 1, 2, 3, 4}
	seeds := w0.payloadSeeds()
	var seedNames []string
	for n := range seeds {
		seedNames = append(seedNames, n)
	}
	sortStringsInPlace(seedNames)
	nSingles, nPairs := 0, 0
	for _, sn := range seedNames {
		tree, err := jparse(seeds[sn])
		if err != nil {
			rep.HarnessError("seed %s does not parse: %v", sn, err)
			return rep
		}
		muts := SingleMutations(tree, allTypeURLs, allEnumNames)
		inputs = append(inputs, input{"seed " + sn, NewPkt("channel-1", denomUSDC, "1000", w0.Orb.String(), seeds[sn]), all})
		for _, m := range muts {
			s, ok := applyMutations(tree, m)
			if !ok {
				continue
			}
			nSingles++
			inputs = append(inputs, input{"seed " + sn + " :: " + m.Name, NewPkt("channel-1", denomUSDC, "1000", w0.Orb.String(), s), all})
		}
		if full {
			for i := range muts {
				for j := i + 1; j < len(muts); j++ {
					if samePathPrefix(muts[i].Path, muts[j].Path) {
						continue
					}
					s, ok := applyMutations(tree, muts[j], muts[i]) // later path first: indexes of the earlier one stay valid
					if !ok {
						continue
					}
					nPairs++
					inputs = append(inputs, input{"seed " + sn + " :: " + muts[i].Name + " && " + muts[j].Name, NewPkt("channel-1", denomUSDC, "1000", w0.Orb.String(), s), []int{0}})
				}
			}
		}
	}
	// FOREIGN TYPES: the memo is decoded with the application-wide interface registry, so an Any in the memo may
	// name ANY type the chain registers and is decoded by that type's own JSON code before orbiter checks that it is
	// an attributes type. Every resolvable type URL × every field of that type (both JSON names) × a junk-value menu,
	// once as forwarding attributes and once as the attributes of a pre-action; plus the bare type and an unknown
	// member. (Found necessary by an independent reviewer: /cosmos.crypto.secp256r1.PubKey with "key":0.)
	nForeign := 0
	for _, u := range w0.allResolvableTypeURLs() {
		var fields []string
		if md := pref.msg(strings.TrimPrefix(u, "/")); md != nil {
			fs := md.Fields()
			for i := 0; i < fs.Len(); i++ {
				fields = append(fields, string(fs.Get(i).Name()))
				if j := fs.Get(i).JSONName(); j != string(fs.Get(i).Name()) {
					fields = append(fields, j)
				}
			}
		}
		bodies := []string{fmt.Sprintf(`{"@type":%s}`, jstr(u)), fmt.Sprintf(`{"@type":%s,"zz_unknown":1}`, jstr(u))}
		for _, f := range fields {
			for _, v := range foreignJunk {
				bodies = append(bodies, fmt.Sprintf(`{"@type":%s,%s:%s}`, jstr(u), jstr(f), v))
			}
		}
		if !full && len(bodies) > 2 {
			// quick: the bare forms and, per field, a reduced junk menu (every third value, rotating)
			var red []string
			for i, b := range bodies {
				if i < 2 || i%3 == len(u)%3 {
					red = append(red, b)
				}
			}
			bodies = red
		}
		for _, b := range bodies {
			nForeign += 2
			inputs = append(inputs,
				input{"foreign fwd attrs " + trunc(b, 160), NewPkt("channel-1", denomUSDC, "1000", w0.Orb.String(), `{"orbiter":{"forwarding":{"protocol_id":"PROTOCOL_INTERNAL","attributes":`+b+`}}}`), []int{0}},
				input{"foreign action attrs " + trunc(b, 160), NewPkt("channel-1", denomUSDC, "1000", w0.Orb.String(), `{"orbiter":{"pre_actions":[{"id":"ACTION_FEE","attributes":`+b+`}],"forwarding":{"protocol_id":"PROTOCOL_INTERNAL","attributes":`+w0.FwdInternal(w0.Bob).attrsJSON()+`}}}`), []int{0}})
		}
	}
	rep.Extra["foreign_type_inputs"] = nForeign
	for _, p := range w0.c14PacketLevel() {
		inputs = append(inputs, input{"packet " + p.String(), p, all})
	}
	rep.Extra["seeds"] = len(seeds)
	rep.Extra["single_mutations"] = nSingles
	rep.Extra["pair_mutations"] = nPairs
	rep.Extra["inputs"] = len(inputs)
	rep.Extra["start_states"] = stateNames

	parallelFor(worlds, len(inputs), func(w *World, i int) {
		in := inputs[i]
		orbAddr := in.pkt.Raw == nil && decodesTo(in.pkt.Receiver, w.Orb)
		wf, why := true, ""
		if orbAddr {
			wf, why = pref.WellFormed(in.pkt.Memo)
		}
		for _, si := range in.states {
			b := Branch(ws[w].ctxs[si])
			r := w.Recv(b, in.pkt)
			rep.Count("evaluations", 1)
			sig := trunc(in.label, 300)
			group := "memo"
			if strings.HasPrefix(in.label, "packet") {
				group = "packet"
			}
			pkt := in.pkt
			replay := func() []byte {
				return mustJSON(map[string]any{"state": stateNames[si], "ops": []Op{{Label: trunc(in.label, 200), Pkt: &pkt}}, "expect": []replayExpect{{Kind: "no_panic", Want: true}}})
			}
			switch {
			case r.Panic != "" && !orbAddr && func() bool {
				// third-party: the orbiter-free reference stack panics at the same site on the same packet — for traffic that is NOT
				// addressed to the orbiter (C07: as if the middleware were absent). A packet addressed to the orbiter account is the
				// orbiter's to answer: a panic of the wrapped application below it must come back as an acknowledgement (seed C14h)
				rr := RecvOn(w.Ref, Branch(ws[w].ctxs[si]), in.pkt)
				return rr.Panic != "" && panicSite(rr.Panic) == panicSite(r.Panic)
			}():
				rep.Outcome("panic-in-wrapped-application-also-without-orbiter(third-party)")
			case r.Panic != "":
				rep.Outcome("panic")
				rep.Violate(Violation{Kind: "panic", Group: group + " " + panicSite(r.Panic), Sig: sig + " | " + panicSite(r.Panic), Replay: replay(),
					What: fmt.Sprintf("receive path panicked in state %s: %s  INPUT %s", stateNames[si], r.Panic, trunc(in.label, 400))})
			case r.NilAck:
				rep.Violate(Violation{Kind: "nil-acknowledgement", Group: group, Sig: sig, Replay: replay(), What: "receive path returned a nil acknowledgement for " + trunc(in.label, 400)})
			case r.Success:
				rep.Outcome("success-ack")
				if orbAddr && !wf {
					rep.Violate(Violation{Kind: "malformed-payload-accepted", Group: group, Sig: sig, Replay: replay(),
						What: fmt.Sprintf("payload that is not well-formed (%s) was executed with a success acknowledgement: %s", why, trunc(in.label, 400))})
				}
			default:
				rep.Outcome("error-ack")
			}
			if orbAddr && si == 0 {
				rep.Distinct(in.label)
			}
		}
	})
	for i := 0; i < len(inputs); i += len(inputs)/8 + 1 {
		rep.Sample(trunc(inputs[i].label, 300))
	}
	rep.Guard(rep.Outcomes["success-ack"] > 100 && rep.Outcomes["error-ack"] > 1000, "outcome classes missing: %v", rep.Outcomes)
	rep.Guard(nSingles > 3000, "too few mutations: %d", nSingles)
	// ---- the same inputs through the REAL receive path (loop.go): relayer's signed MsgRecvPacket in a block, IBC core's
	// own RecvPacket over the localhost client. Inputs are re-targeted to the loop's channel pair; inputs whose channel
	// identifiers could not exist on a chain are left to the emulated delivery above. quick: every packet-level input and every 4th memo-level input;
	// thorough: all of them (of the pair mutations every 16th).
	var real []loopInput
	for i, in := range inputs {
		if len(in.states) == 1 && full && i%16 != 0 && !strings.HasPrefix(in.label, "foreign") {
			continue
		}
		if !full && i%4 != 0 && !strings.HasPrefix(in.label, "packet") {
			continue // quick: every packet-level input, every 4th memo-level input (thorough: all of them)
		}
		p := in.pkt
		if p.Raw != nil {
			real = append(real, loopInput{in.label, p.Raw})
			continue
		}
		if p.SrcPort != "transfer" || p.DstPort != "transfer" || (p.SrcChan != "channel-9" && p.SrcChan != "channel-7") || (p.DstChan != "channel-1" && p.DstChan != "channel-0") {
			continue
		}
		p.Denom = strings.Replace(p.Denom, "transfer/"+p.SrcChan+"/", "transfer/channel-1/", 1)
		real = append(real, loopInput{in.label, p.Data()})
	}
	rep.Extra["real_path_inputs"] = len(real)
	loopDeliverAll(rep, real, numWorkers())
	rep.Guard(rep.Counters["real_path_deliveries"] > 3000, "real receive path phase too thin: %d deliveries", rep.Counters["real_path_deliveries"])
	return rep
}

// foreignJunk: JSON values given to each field of a foreign type (raw JSON text).
var foreignJunk = []string{`0`, `1`, `-1`, `1.5`, `1e400`, `""`, `"x"`, `"0"`, `"AA=="`, `null`, `true`, `{}`, `[]`, `[0]`, `[""]`, `{"a":1}`,
	`"` + maxUint256Str + `"`, `"2024-01-01T00:00:00Z"`, `"1s"`, `{"@type":"/cosmos.crypto.secp256r1.PubKey","key":0}`}

// allResolvableTypeURLs: every implementation of every interface the application's registry knows (sorted).
func (w *World) allResolvableTypeURLs() []string {
	seen := map[string]bool{}
	var out []string
	for _, iface := range w.App.interfaceRegistry.ListAllInterfaces() {
		for _, u := range w.App.interfaceRegistry.ListImplementations(iface) {
			if !seen[u] {
				seen[u] = true
				out = append(out, u)
			}
		}
	}
	sortStringsInPlace(out)
	return out
}

func samePathPrefix(a, b jpath) bool {
	n := len(a)
	if len(b) < n {
		n = len(b)
	}
	for i := 0; i < n; i++ {
		if a[i] != b[i] {
			return false
		}
	}
	return true // one is an ancestor of (or equal to) the other: the pair is not independent
}

func panicSite(p string) string {
	// "value | f1 <- f2 <- ..." -> first frame
	if i := strings.Index(p, " | "); i >= 0 {
		rest := p[i+3:]
		if j := strings.Index(rest, " <- "); j >= 0 {
			return rest[:j]
		}
		return rest
	}
	return trunc(p, 40)
}

func sortStringsInPlace(s []string) {
	for i := 1; i < len(s); i++ {
		for j := i; j > 0 && s[j] < s[j-1]; j-- {
			s[j], s[j-1] = s[j-1], s[j]
		}
	}
}


// camelCaseMemo renames every object member of a memo to its camelCase spelling ("@type" and the root key stay).
func camelCaseMemo(memo string) string {
	t, err := jparse(memo)
	if err != nil {
		return memo
	}
	var walk func(n *jnode, depth int)
	walk = func(n *jnode, depth int) {
		if n.K == jObj {
			for i, k := range n.Keys {
				if depth > 0 && !strings.HasPrefix(k, "@") {
					n.Keys[i] = toCamel(k)
				}
			}
		}
		for _, c := range n.Kids {
			walk(c, depth+1)
		}
	}
	walk(t, 0)
	return t.String()
}
