package simapp

// C19 — processing is deterministic, including committed error text.
// E4 replay over E1 histories: every history of a fixed list (all sequences up to depth 2 over the C12 and
// C08 alphabets, every C14 input, the C01 probe packets on two states) is executed on R independent
// application instances — two or more in this process and the rest in SEPARATE OS PROCESSES (the check
// re-executes its own binary) — and per-transition digests of (acknowledgement bytes, ordered events,
// full-store hash), the final exported orbiter genesis and bank genesis must be identical.

import (
	"crypto/sha256"
	"encoding/hex"
	"encoding/json"
	"fmt"
	"os"
	"os/exec"
	"regexp"
	"strings"
	"sync"

	sdk "github.com/cosmos/cosmos-sdk/types"
)

var scapegoatRe = regexp.MustCompile(`unknown field \\*"[^"\\]*\\*" in`)

type c19History struct {
	Label string
	Ops   []Op
}

func (w *World) c19Histories(full bool) []c19History {
	var out []c19History
	seqs := func(name string, alpha []Op, depth int) {
		cur := [][]Op{nil}
		for d := 1; d <= depth; d++ {
			var next [][]Op
			for _, p := range cur {
				for _, op := range alpha {
					n := append(append([]Op{}, p...), op)
					next = append(next, n)
					var ls []string
					for _, o := range n {
						ls = append(ls, o.Label)
					}
					out = append(out, c19History{name + ": " + strings.Join(ls, " ; "), n})
				}
			}
			cur = next
		}
	}
	a12, _ := w.statsPrefix()
	d := 2
	if full {
		d = 3
	}
	seqs("C12", a12, d)
	seqs("C08", c08Alphabet(w, "quick"), 2)
	// C14 inputs as single-operation histories (the long tail of distinct error texts)
	seeds := w.payloadSeeds()
	var names []string
	for n := range seeds {
		names = append(names, n)
	}
	sortStringsInPlace(names)
	for _, sn := range names {
		tree, err := jparse(seeds[sn])
		if err != nil {
			continue
		}
		for _, m := range SingleMutations(tree, allTypeURLs, allEnumNames) {
			s, ok := applyMutations(tree, m)
			if !ok {
				continue
			}
			p := NewPkt("channel-1", denomUSDC, "1000", w.Orb.String(), s)
			out = append(out, c19History{"C14 " + sn + " :: " + m.Name, []Op{{Label: "mutated memo", Pkt: &p}}})
		}
	}
	for _, p := range w.c14PacketLevel() {
		p := p
		out = append(out, c19History{"C14 packet " + trunc(p.String(), 200), []Op{{Label: "packet", Pkt: &p}}})
	}
	// C01 probe packets on W0 and after a deposit (refusals that quote balances and amounts)
	for _, pr := range w.ledgerProbes(false, true) {
		pr := pr
		out = append(out, c19History{"C01 " + pr.Label, []Op{{Label: pr.Label, Pkt: &pr.Pkt}}})
		out = append(out, c19History{"C01 deposit+" + pr.Label, []Op{w.OpDeposit(w.Orb, denomUSDC, 5), w.OpDeposit(w.Orb, denomIGP, 5000), {Label: pr.Label, Pkt: &pr.Pkt}}})
	}
	return out
}

// transitionDigest: ack bytes, events (with third-party noise masked), full-store hash.
func (w *World) c19Step(ctx sdk.Context, op Op, detail *[]string) string {
	h := sha256.New()
	var events []Event
	var ack string
	if op.Pkt != nil {
		// calibrate third-party noise: the same packet twice on the orbiter-free reference stack
		r1 := RecvOn(w.Ref, Branch(ctx), *op.Pkt)
		r2 := RecvOn(w.Ref, Branch(ctx), *op.Pkt)
		r := w.Recv(ctx, *op.Pkt)
		ack = string(r.Ack) + "|panic=" + panicSite(r.Panic) + fmt.Sprintf("|nil=%v|ok=%v", r.NilAck, r.Success)
		events = maskEvents(r.Events, r1.Events, r2.Events)
	} else {
		res := w.Apply(ctx, op)
		if res.Msg != nil {
			ack = fmt.Sprintf("ok=%v err=%s panic=%s resp=%x", res.Msg.OK, res.Msg.Err, res.Msg.Panic, res.Msg.Resp)
			events = res.Msg.Events
		} else {
			ack = "err=" + res.Err
		}
	}
	evs, _ := json.Marshal(events)
	key := w.StateKey(ctx)
	h.Write([]byte(ack))
	h.Write(evs)
	h.Write([]byte(key))
	if detail != nil {
		*detail = append(*detail, fmt.Sprintf("%s => ack[%s] events[%s] state[%s]", op.Label, trunc(ack, 400), trunc(string(evs), 600), key))
	}
	return hex.EncodeToString(h.Sum(nil)[:12])
}

// maskEvents blanks attribute values at positions where two runs of the reference stack disagree with each
// other (e.g. ibc-go prints a pointer for non-positive amounts). Only events that the reference stack emits at
// the same index with the same type are eligible; anything orbiter emits or embeds in an ack is never masked.
func maskEvents(evs, ref1, ref2 []Event) []Event {
	out := make([]Event, len(evs))
	for i, e := range evs {
		ne := Event{Type: e.Type, Attrs: append([][2]string{}, e.Attrs...)}
		if i < len(ref1) && i < len(ref2) && ref1[i].Type == e.Type && ref2[i].Type == e.Type {
			for j := range ne.Attrs {
				if j < len(ref1[i].Attrs) && j < len(ref2[i].Attrs) && ref1[i].Attrs[j] != ref2[i].Attrs[j] {
					ne.Attrs[j][1] = "<third-party-nondeterministic>"
				}
			}
		}
		out[i] = ne
	}
	return out
}

func (w *World) c19RunHistory(h c19History, detail *[]string) string {
	ctx := Branch(w.Ctx)
	hh := sha256.New()
	for _, op := range h.Ops {
		hh.Write([]byte(w.c19Step(ctx, op, detail)))
	}
	// final exports: orbiter genesis (module JSON) and bank genesis
	om, err := w.orbiterModule()
	if err == nil {
		func() {
			defer func() { recover() }()
			g := om.ExportGenesis(ctx, w.App.appCodec)
			hh.Write(g)
			if detail != nil {
				*detail = append(*detail, "export orbiter "+trunc(string(g), 500))
			}
		}()
	}
	bg := w.App.BankKeeper.ExportGenesis(ctx)
	bz, _ := w.App.appCodec.MarshalJSON(bg)
	hh.Write(bz)
	return hex.EncodeToString(hh.Sum(nil)[:12])
}

// c19Digests runs all histories on nWorlds fresh instances in this process; returns one digest list per instance.
// extraReplays: additional in-process replays of single-packet histories (they are cheap and carry the long
// tail of error texts). Go starts the iteration of a small map at a random slot, so an order dependence over
// two entries shows its minority order with p = 1/8 per replay: 64 replays miss it with probability 2e-4,
// 200 with 2.5e-12.
func extraReplays(full bool) int {
	if full {
		return 200
	}
	return 64
}

func c19Digests(full bool, nWorlds int) ([][]string, []c19History, []*World, error) {
	worlds, err := buildWorlds(nWorlds)
	if err != nil {
		return nil, nil, nil, err
	}
	hs := worlds[0].c19Histories(full)
	out := make([][]string, nWorlds)
	var wg sync.WaitGroup
	for wi := range worlds {
		out[wi] = make([]string, len(hs))
		wg.Add(1)
		go func(wi int) {
			defer wg.Done()
			w := worlds[wi]
			// each instance derives the history list itself (from its own fixture) — the lists must agree too
			mine := w.c19Histories(full)
			for i := range mine {
				out[wi][i] = w.c19RunHistory(mine[i], nil)
			}
		}(wi)
	}
	wg.Wait()
	return out, hs, worlds, nil
}

// c19Amplify: light in-process replays of every single-packet history on all cores; returns the indexes of
// histories whose acknowledgement bytes (the part IBC commits to state) were not identical on every replay.
func c19Amplify(hs []c19History, full bool) (map[int]bool, int64, error) {
	ws, err := buildWorlds(numWorkers())
	if err != nil {
		return nil, 0, err
	}
	n := extraReplays(full)
	flaky := map[int]bool{}
	var mu sync.Mutex
	var runs int64
	var idx []int
	for i := range hs {
		if len(hs[i].Ops) == 1 && hs[i].Ops[0].Pkt != nil {
			idx = append(idx, i)
		}
	}
	parallelFor(ws, len(idx), func(w *World, j int) {
		i := idx[j]
		first := ""
		for k := 0; k < n; k++ {
			r := w.Recv(Branch(w.Ctx), *hs[i].Ops[0].Pkt)
			o := string(r.Ack) + "|" + panicSite(r.Panic)
			if k == 0 {
				first = o
			} else if o != first {
				mu.Lock()
				flaky[i] = true
				mu.Unlock()
				break
			}
		}
		mu.Lock()
		runs += int64(n)
		mu.Unlock()
	})
	return flaky, runs, nil
}

func init() { register("C19", checkC19) }

func checkC19(tier string) *Report {
	full := tier == "thorough"
	if os.Getenv("VERIF_C19_CHILD") != "" {
		// child process: compute digests on one fresh instance and write them out
		ds, _, worlds, err := c19Digests(full, 1)
		rep := NewReport("C19", tier, "model_checking")
		if err != nil {
			fmt.Println("HARNESS-ERROR child fixture:", err)
			os.Exit(2)
		}
		loopTr, lerr := loopRun(nil, full)
		if lerr != nil {
			fmt.Println("HARNESS-ERROR child real-block history:", lerr)
			os.Exit(2)
		}
		bz, _ := json.Marshal(map[string]any{"w0": worlds[0].StateKey(worlds[0].Ctx), "digests": ds[0], "loop": loopTr})
		if err := os.WriteFile(os.Getenv("VERIF_C19_CHILD"), bz, 0o644); err != nil {
			fmt.Println("HARNESS-ERROR child write:", err)
			os.Exit(2)
		}
		os.Exit(0)
		return rep
	}
	rep := NewReport("C19", tier, "model_checking")
	inProc, children := 2, 1
	if full {
		inProc, children = 4, 4
	}
	rep.Rule = fmt.Sprintf("every history of the list (all op sequences up to depth %d over the 20-op C12 alphabet, depth 2 over the C08 alphabet, every C14 mutated memo and packet, the C01 probe packets on two states) is replayed on %d independent instances in this process and %d in separate OS processes; per-transition digests of ack bytes + ordered events + full-store hash and the final orbiter/bank exports are compared. In addition the REAL block history of loop.go (signed transactions through baseapp, packets through IBC core over the localhost client; app hash, tx codes, gas used, acknowledgement digests per block) is replayed on 2 fresh instances here and once per child process and compared line by line. Non-trivial = histories whose last operation is refused (they carry error text)", map[bool]int{false: 2, true: 3}[full], inProc, children)
	rep.Assumptions = []string{
		"the map-iteration 'schedule' is chosen by the Go runtime and cannot be driven by a harness: over that dimension this is repetition (R replays, some in other processes), not enumeration; histories and states are enumerated exhaustively for the stated lists",
		"event attributes on which two runs of the orbiter-free reference stack disagree in the same process are third-party noise and masked; acknowledgement bytes, store contents and everything emitted by orbiter are never masked",
	}
	// children first (in parallel with the in-process replays)
	exe, err := os.Executable()
	if err != nil {
		rep.HarnessError("cannot locate own binary: %v", err)
		return rep
	}
	type childRes struct {
		W0      string   `json:"w0"`
		Digests []string `json:"digests"`
		Loop    []string `json:"loop"`
		err     error
	}
	cres := make([]childRes, children)
	var cwg sync.WaitGroup
	tmp, err := os.MkdirTemp("", "verif-c19-")
	if err != nil {
		rep.HarnessError("tmp: %v", err)
		return rep
	}
	defer os.RemoveAll(tmp)
	for ci := 0; ci < children; ci++ {
		cwg.Add(1)
		go func(ci int) {
			defer cwg.Done()
			out := fmt.Sprintf("%s/child%d.json", tmp, ci)
			cmd := exec.Command(exe, "-test.run", "^TestVerif$", "-test.timeout", "3h", "-test.count", "1")
			cmd.Env = append(os.Environ(), "VERIF_C19_CHILD="+out, "VERIF_PROP=C19", "VERIF_TIER="+tier)
			cmd.Dir, _ = os.Getwd()
			if bz, err := cmd.CombinedOutput(); err != nil {
				cres[ci].err = fmt.Errorf("%v: %s", err, trunc(string(bz), 400))
				return
			}
			bz, err := os.ReadFile(out)
			if err != nil {
				cres[ci].err = err
				return
			}
			cres[ci].err = json.Unmarshal(bz, &cres[ci])
		}(ci)
	}
	ds, hs, worlds, err := c19Digests(full, inProc)
	if err != nil {
		rep.HarnessError("fixture: %v", err)
		return rep
	}
	// the real block history of loop.go (signed transactions, FinalizeBlock+Commit, IBC core over the localhost client):
	// app hash, transaction codes, gas used and acknowledgement bytes of every block must be identical on every replay
	loopTrs := make([][]string, 2)
	var lwg sync.WaitGroup
	var loopErr error
	for li := range loopTrs {
		lwg.Add(1)
		go func(li int) {
			defer lwg.Done()
			// the first replay also carries the history's own oracles; of those, C19 keeps the ones about state OUTSIDE the stores:
			// the verdict on a packet must be a function of the committed state and the packet — not of messages that ran in a
			// transaction that was rolled back, i.e. of what this process happened to execute (seed C19h)
			var sub *Report
			if li == 0 {
				sub = NewReport("C19", tier, "model_checking")
			}
			tr, err := loopRun(sub, full)
			if err != nil {
				loopErr = err
			}
			loopTrs[li] = tr
			if sub != nil {
				for _, v := range sub.Violations {
					if v.Kind == "rolled-back-message-in-force" || v.Kind == "same-block-admin-message-not-in-force" {
						v.Kind = "verdict-depends-on-process-history"
						rep.Violate(v)
					}
				}
				rep.Count("evaluations", sub.Outcomes["rolled-back-message-not-in-force"]+sub.Outcomes["same-block-message-in-force"])
			}
		}(li)
	}
	flaky, lightRuns, err := c19Amplify(hs, full)
	if err != nil {
		rep.HarnessError("fixture: %v", err)
		return rep
	}
	rep.Extra["light_ack_replays"] = lightRuns
	rep.Extra["light_ack_replays_per_single_packet_history"] = extraReplays(full)
	cwg.Wait()
	rep.Extra["histories"] = len(hs)
	rep.Extra["replays_in_process"] = inProc
	rep.Extra["replays_in_other_processes"] = children
	w0key := worlds[0].StateKey(worlds[0].Ctx)
	all := append([][]string{}, ds...)
	for ci := range cres {
		if cres[ci].err != nil {
			rep.HarnessError("child process %d failed: %v", ci, cres[ci].err)
			return rep
		}
		if cres[ci].W0 != w0key {
			rep.Violate(Violation{Kind: "fixture-differs-across-processes", Sig: "W0", Replay: mustJSON("W0"), What: fmt.Sprintf("the fixture state differs between processes: %s vs %s", w0key, cres[ci].W0)})
			return rep
		}
		if len(cres[ci].Digests) != len(hs) {
			rep.Violate(Violation{Kind: "history-list-differs-across-processes", Sig: "list", Replay: mustJSON("list"), What: fmt.Sprintf("child %d enumerated %d histories, parent %d", ci, len(cres[ci].Digests), len(hs))})
			return rep
		}
		all = append(all, cres[ci].Digests)
	}
	lwg.Wait()
	if loopErr != nil {
		rep.HarnessError("real block history: %v", loopErr)
		return rep
	}
	for ci := range cres {
		loopTrs = append(loopTrs, cres[ci].Loop)
	}
	for r := 1; r < len(loopTrs); r++ {
		a, b := loopTrs[0], loopTrs[r]
		if len(a) != len(b) {
			rep.Violate(Violation{Kind: "real-block-history-differs", Sig: "length", Replay: mustJSON("loop"), What: fmt.Sprintf("replay %d of the real block history has %d transcript lines, replay 0 has %d", r, len(b), len(a))})
			continue
		}
		for k := range a {
			if a[k] != b[k] {
				label := a[k]
				if i := strings.Index(label, " code="); i > 0 {
					label = label[:i]
				}
				rep.Violate(Violation{Kind: "real-block-history-differs", Sig: "first difference at: " + trunc(label, 200), Replay: mustJSON("loop"),
					What: fmt.Sprintf("the same block history (signed transactions through baseapp, packets through IBC core) gives different app hashes / tx results / gas / acknowledgements on independent replays; first difference at line %d:\n  replay 0: %s\n  replay %d: %s", k, trunc(a[k], 400), r, trunc(b[k], 400))})
				break
			}
		}
	}
	rep.Extra["real_block_history_lines"] = len(loopTrs[0])
	rep.Extra["real_block_history_replays"] = len(loopTrs)
	rep.Count("evaluations", int64(len(loopTrs[0])))
	rep.Guard(len(loopTrs[0]) > 500, "real block history too short: %d lines", len(loopTrs[0]))
	var transitions int64
	for i, h := range hs {
		transitions += int64(len(h.Ops))
		same := !flaky[i]
		for r := 1; r < len(all); r++ {
			if all[r][i] != all[0][i] {
				same = false
			}
		}
		rep.Count("evaluations", 1)
		if same {
			rep.Outcome("history-identical-on-all-replays")
			continue
		}
		// classify: re-run with details many times on fresh branches and look at what varies. (Go starts the
		// iteration of a small map at a random slot, so with two entries the minority order shows with p=1/8;
		// 400 replays make missing it a 1e-23 event — the classification must not be left to chance.)
		seenObs := map[string]string{}
		for k := 0; k < 400; k++ {
			var d []string
			worlds[k%len(worlds)].c19RunHistory(h, &d)
			full := strings.Join(d, "\n")
			seenObs[full] = full
		}
		var variants []string
		norm := map[string]bool{}
		for v := range seenObs {
			variants = append(variants, v)
			norm[scapegoatRe.ReplaceAllString(v, "unknown field <any> in")] = true
		}
		sortStringsInPlace(variants)
		cause := "unclassified"
		switch {
		case len(variants) >= 2 && len(norm) == 1:
			// gogoproto jsonpb "picks any field to be the scapegoat" by ranging over a map when several members are
			// unknown to the target type; orbiter embeds that text verbatim in the acknowledgement
			cause = "jsonpb-unknown-field-scapegoat-in-ack"
		case len(variants) == 1:
			cause = "not-reproduced-in-400-in-process-replays"
		}
		diff := fmt.Sprintf("%d distinct observations in 400 in-process replays", len(variants))
		if len(variants) >= 2 {
			a, b := strings.Split(variants[0], "\n"), strings.Split(variants[1], "\n")
			for k := range a {
				if k < len(b) && a[k] != b[k] {
					diff += fmt.Sprintf("; first difference at step %d:\n  replay A: %s\n  replay B: %s", k, trunc(a[k], 700), trunc(b[k], 700))
					break
				}
			}
		}
		grp := h.Label
		if i := strings.Index(grp, " "); i > 0 {
			grp = grp[:i]
		}
		rep.Violate(Violation{Kind: "replays-differ", Group: grp + " cause=" + cause, Sig: trunc(h.Label, 300) + " cause=" + cause, Replay: mustJSON(map[string]any{"ops": h.Ops}),
			What: fmt.Sprintf("replaying the same history on independent instances gives different observations [%s] cause=%s: %s", trunc(h.Label, 300), cause, diff)})
	}
	// non-trivial count: histories ending in a refusal (they carry error text)
	for i, h := range hs {
		if i%1 == 0 && len(h.Ops) > 0 {
			last := h.Ops[len(h.Ops)-1]
			if last.Pkt != nil {
				rep.Distinct(h.Label)
			}
		}
	}
	rep.Count("states", int64(len(hs)))
	rep.Count("transitions", transitions*int64(len(all)))
	rep.Count("traces_validated_against_impl", int64(len(hs))*int64(len(all)-1))
	for i := 0; i < len(hs); i += len(hs)/6 + 1 {
		rep.Sample(map[string]any{"history": trunc(hs[i].Label, 240), "digest": all[0][i]})
	}
	rep.Extra["static_context"] = "grep of non-generated module code: the only `range` over a map is in keeper/query_server.go (ActionIDs/ProtocolIDs build a map from a map) — context, not the deciding step"
	rep.Guard(len(hs) > 5000, "too few histories: %d", len(hs))
	return rep
}
