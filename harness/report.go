package simapp

// report.go — evidence files, violation/replay artefacts, known findings, vacuity guards.

import (
	"crypto/sha256"
	"encoding/hex"
	"encoding/json"
	"fmt"
	"os"
	"path/filepath"
	"sort"
	"strconv"
	"strings"
	"sync"
	"time"
)

type Violation struct {
	Property string          `json:"property"`
	Kind     string          `json:"kind"`           // short class of the failed oracle clause
	What     string          `json:"what"`           // human text
	Sig      string          `json:"signature"`      // stable identification used by known_findings matching
	Group    string          `json:"group,omitempty"` // coarse class, only used to keep the printed list short
	Replay   json.RawMessage `json:"replay"`         // operation list replayable by bin/check --replay
	Detail   map[string]any  `json:"detail,omitempty"`
}

type knownFinding struct {
	Property string `json:"property"`
	ID       string `json:"id"`
	// Match: a violation is covered iff its Kind equals Kind (when set) and its Sig contains every
	// string of SigContains. Entries identify one specific input / call site / history.
	Kind        string   `json:"kind,omitempty"`
	SigContains []string `json:"sig_contains"`
	What        string   `json:"what"`
}

type knownFile struct {
	Known []knownFinding `json:"known"`
	Fixed []string       `json:"fixed"`
}

// Report accumulates what one check run covered.
type Report struct {
	mu         sync.Mutex
	Prop       string
	Tier       string
	Level      string
	Seed       int64
	start      time.Time
	Counters   map[string]int64
	Outcomes   map[string]int64 // histogram of outcome classes
	distinct   map[string]struct{}
	Samples    []any
	sampleCap  int
	Violations []Violation
	vioSeen    map[string]bool
	Assumptions []string
	Extra      map[string]any
	Exhaustive bool
	Rule       string
	guards     []string
	harnessErr []string
	knownHit   map[string]string
}

func NewReport(prop, tier, level string) *Report {
	seed, _ := strconv.ParseInt(os.Getenv("VERIF_SEED"), 10, 64)
	return &Report{Prop: prop, Tier: tier, Level: level, Seed: seed, start: time.Now(),
		Counters: map[string]int64{}, Outcomes: map[string]int64{}, distinct: map[string]struct{}{},
		sampleCap: 12, vioSeen: map[string]bool{}, Extra: map[string]any{}, Exhaustive: true, knownHit: map[string]string{}}
}

func (r *Report) Count(name string, n int64) {
	r.mu.Lock()
	r.Counters[name] += n
	r.mu.Unlock()
}

func (r *Report) Outcome(class string) {
	r.mu.Lock()
	r.Outcomes[class]++
	r.mu.Unlock()
}

// Distinct registers a distinct non-trivial case key (counted once).
func (r *Report) Distinct(key string) {
	r.mu.Lock()
	r.distinct[key] = struct{}{}
	r.mu.Unlock()
}

func (r *Report) Sample(s any) {
	r.mu.Lock()
	if len(r.Samples) < r.sampleCap {
		r.Samples = append(r.Samples, s)
	}
	r.mu.Unlock()
}

func (r *Report) HarnessError(format string, a ...any) {
	r.mu.Lock()
	r.harnessErr = append(r.harnessErr, fmt.Sprintf(format, a...))
	r.mu.Unlock()
}

// Guard asserts a vacuity minimum; failure is a HARNESS-ERROR (exit 2), never a VIOLATION.
func (r *Report) Guard(ok bool, format string, a ...any) {
	if !ok {
		r.HarnessError("vacuity guard: "+format, a...)
	}
}

func (r *Report) Violate(v Violation) {
	v.Property = r.Prop
	r.mu.Lock()
	defer r.mu.Unlock()
	key := v.Kind + "|" + v.Sig
	if r.vioSeen[key] {
		r.Counters["violations_duplicate"]++
		return
	}
	r.vioSeen[key] = true
	r.Violations = append(r.Violations, v)
}

func (r *Report) NumViolations() int {
	r.mu.Lock()
	defer r.mu.Unlock()
	return len(r.Violations)
}

func loadKnown(dir string) knownFile {
	var kf knownFile
	bz, err := os.ReadFile(filepath.Join(dir, "known_findings.json"))
	if err != nil {
		return kf
	}
	_ = json.Unmarshal(bz, &kf)
	return kf
}

func (k knownFinding) matches(v Violation) bool {
	if k.Property != v.Property {
		return false
	}
	if k.Kind != "" && k.Kind != v.Kind {
		return false
	}
	if len(k.SigContains) == 0 {
		return false
	}
	for _, s := range k.SigContains {
		if !strings.Contains(v.Sig, s) {
			return false
		}
	}
	return true
}

// Finish writes evidence, replay files, prints verdict lines and returns the exit code.
func (r *Report) Finish(verifDir string) int {
	kf := loadKnown(verifDir)
	wall := time.Since(r.start).Seconds()
	var unlisted []Violation
	knownLines := map[string]int{}
	for _, v := range r.Violations {
		matched := false
		for _, k := range kf.Known {
			if k.matches(v) {
				knownLines[fmt.Sprintf("KNOWN-FINDING: property=%s %s: %s", r.Prop, k.ID, k.What)]++
				matched = true
				break
			}
		}
		if !matched {
			unlisted = append(unlisted, v)
		}
	}
	sort.Slice(unlisted, func(i, j int) bool { return unlisted[i].Kind+unlisted[i].Sig < unlisted[j].Kind+unlisted[j].Sig })

	cov := map[string]any{}
	for k, v := range r.Extra {
		cov[k] = v
	}
	for k, v := range r.Counters {
		cov[k] = v
	}
	if pr, ok := r.Counters["probes"]; ok && pr > 0 {
		// probes are transitions executed on the real system from an explored state (applied, never extended)
		r.Counters["transitions"] += pr
		cov["transitions"] = r.Counters["transitions"]
	}
	cov["outcomes"] = r.Outcomes
	cov["distinct_nontrivial"] = len(r.distinct)
	if ev, ok := r.Counters["evaluations"]; !ok || ev < r.Counters["transitions"] {
		// every executed transition is an evaluated case
		cov["evaluations"] = r.Counters["transitions"] + r.Counters["evaluations"]
	}
	cov["rule"] = r.Rule
	cov["exhaustive"] = r.Exhaustive
	if len(r.Samples) == 0 {
		r.Samples = append(r.Samples, "none")
	}
	cov["samples"] = r.Samples
	cov["known_findings_observed"] = knownLines
	cov["harness_errors"] = r.harnessErr
	ev := map[string]any{
		"property_id": r.Prop, "tier": r.Tier, "seed": r.Seed, "level": r.Level,
		"coverage": cov, "assumptions": r.Assumptions, "wall_s": wall, "violations": len(unlisted),
	}
	bz, _ := json.MarshalIndent(ev, "", " ")
	_ = os.MkdirAll(filepath.Join(verifDir, "evidence"), 0o755)
	evPath := filepath.Join(verifDir, "evidence", r.Prop+".json")
	if err := os.WriteFile(evPath, bz, 0o644); err != nil {
		fmt.Printf("HARNESS-ERROR property=%s cannot write evidence: %v\n", r.Prop, err)
		return 2
	}

	lines := make([]string, 0, len(knownLines))
	for l := range knownLines {
		lines = append(lines, l)
	}
	sort.Strings(lines)
	for _, l := range lines {
		fmt.Printf("%s (observed %d×)\n", l, knownLines[l])
	}
	fmt.Printf("SUMMARY property=%s tier=%s states=%d transitions=%d evaluations=%v distinct=%d exhaustive=%v outcomes=%v wall=%.1fs\n",
		r.Prop, r.Tier, r.Counters["states"], r.Counters["transitions"], cov["evaluations"], len(r.distinct), r.Exhaustive, r.Outcomes, wall)

	if len(r.harnessErr) > 0 {
		for _, e := range r.harnessErr {
			fmt.Printf("HARNESS-ERROR property=%s %s\n", r.Prop, e)
		}
	}
	if len(unlisted) > 0 {
		_ = os.MkdirAll(filepath.Join(verifDir, "replays"), 0o755)
		maxPrint := 40
		perGroup := map[string]int{}
		if old, _ := filepath.Glob(filepath.Join(verifDir, "replays", r.Prop+"-*.json")); len(old) > 0 {
			for _, o := range old {
				_ = os.Remove(o)
			}
		}
		printed, written := 0, 0
		for _, v := range unlisted {
			h := sha256.Sum256([]byte(v.Kind + "|" + v.Sig))
			p := filepath.Join(verifDir, "replays", fmt.Sprintf("%s-%s.json", r.Prop, hex.EncodeToString(h[:6])))
			if written < 400 { // keep the artefact directory bounded; the evidence counts all of them
				vb, _ := json.MarshalIndent(v, "", " ")
				_ = os.WriteFile(p, vb, 0o644)
				written++
			}
			g := v.Kind + "|" + v.Group
			perGroup[g]++
			if perGroup[g] <= 2 && printed < maxPrint {
				printed++
				what := v.What
				if len(what) > 700 {
					what = what[:700] + "…"
				}
				fmt.Printf("VIOLATION property=%s replay=%s kind=%s :: %s\n", r.Prop, p, v.Kind, what)
			}
		}
		if len(unlisted) > printed {
			fmt.Printf("... and %d more violations (all written under %s/replays); by class:\n", len(unlisted)-printed, verifDir)
			gs := make([]string, 0, len(perGroup))
			for g := range perGroup {
				gs = append(gs, g)
			}
			sort.Strings(gs)
			for _, g := range gs {
				fmt.Printf("    %6d × %s\n", perGroup[g], g)
			}
		}
		return 1
	}
	if len(r.harnessErr) > 0 {
		return 2
	}
	return 0
}
