package simapp

// C03 — a failure at any step yields an error acknowledgement, never partial success.
// E3: fault-plan enumeration on the INSTRUMENTED stand (every single fault and every pair of faults over
// the fallible call sites reached by each payload shape; the wrapped ICS-20 app has four fault modes),
// plus naturally occurring failures on the FULL application from every state of an E1 prefix.

import (
	storetypes "cosmossdk.io/store/types"
	"fmt"
	"sort"
	"strings"

	sdk "github.com/cosmos/cosmos-sdk/types"
)

type c03Shape struct {
	Label string
	Spec  TransferSpec
	Stray int64
	Pre   []Op // operations applied before (non-initial start state); such shapes get single-fault plans only
}

func (sh c03Shape) start(w *World) (sdk.Context, error) {
	ctx := Branch(w.Ctx)
	for _, op := range sh.Pre {
		if r := w.Apply(ctx, op); !r.Succeeded() {
			return ctx, fmt.Errorf("start-state op %s failed", op.Label)
		}
	}
	if sh.Stray > 0 {
		if err := w.Deposit(ctx, w.Orb, sh.Spec.Base, sh.Stray); err != nil {
			return ctx, err
		}
	}
	return ctx, nil
}

func (w *World) c03Shapes(full bool) []c03Shape {
	orb := w.Orb.String()
	var out []c03Shape
	fwds := []Fwd{w.FwdCCTP(0), w.FwdCCTPCaller(1), w.FwdHyp(1), w.FwdInternal(w.Bob)}
	feeSets := [][]FeeSpec{nil, {{To: w.Fee1.String(), Bps: 100}},
		{{To: w.Fee1.String(), Bps: 100}, {To: w.Fee2.String(), Fixed: "7"}, {To: w.Fee1.String(), Bps: 50}}}
	for _, f := range fwds {
		for fi, fe := range feeSets {
			for _, stray := range []int64{0, 5} {
				if !full && ((fi == 2 && stray == 0) || (fi == 0 && stray == 5)) {
					continue
				}
				out = append(out, c03Shape{Label: fmt.Sprintf("%s/fees%d/stray%d", f, fi, stray), Spec: TransferSpec{"channel-0", denomUSDC, "10000", orb, f, fe}, Stray: stray})
			}
		}
	}
	// two actions (instrumented stand with the harness' swap controller): a fault inside the FIRST action
	// must not be forgotten because a later action succeeds
	for _, f := range []Fwd{w.FwdInternal(w.Bob), w.FwdCCTP(0)} {
		f1 := f
		f1.SwapFirst = true
		f1.Tag = "swap+" + f.String()
		out = append(out, c03Shape{Label: fmt.Sprintf("[SWAP,FEE]->%s/stray0", f), Spec: TransferSpec{"channel-0", denomOTH, "10000", orb, f1, []FeeSpec{{To: w.Fee1.String(), Bps: 100}}}, Stray: 0})
	}
	if full {
		// non-initial start states (single faults only): neutral admin operations, deposits in other denoms, prior transfers
		pres := []Op{w.OpPauseProtocol("PROTOCOL_IBC"), w.OpPauseCC("PROTOCOL_CCTP", "7"), w.OpUpdateParams(8), w.OpDeposit(w.Orb, denomOTH, 3), w.OpDeposit(w.Orb, denomIGP, 9),
			w.OpRecv("prior cctp", TransferSpec{"channel-0", denomUSDC, "1000", orb, w.FwdCCTP(0), nil}.Pkt()),
			w.OpRecv("prior internal+fee", TransferSpec{"channel-0", denomUSDC, "10000", orb, w.FwdInternal(w.Bob), []FeeSpec{{To: w.Fee1.String(), Bps: 100}}}.Pkt()),
			w.OpPauseAction("ACTION_SWAP")}
		base := append([]c03Shape{}, out...)
		for _, sh := range base {
			for _, pre := range pres {
				if sh.usesSwap() && pre.Msg != nil && pre.Msg.RPC == "PauseAction" {
					continue
				}
				n := sh
				n.Label = sh.Label + " after " + pre.Label
				n.Pre = []Op{pre}
				out = append(out, n)
			}
		}
	}
	f2 := w.FwdInternal(w.Bob)
	f2.Tag = "fee+swap+internal"
	out = append(out, c03Shape{Label: "[FEE,SWAP]->internal/stray0", Spec: TransferSpec{"channel-0", denomOTH, "10000", orb, f2, []FeeSpec{{To: w.Fee1.String(), Bps: 100}}}, Stray: 0})
	return out
}

// c03Pkt: the packet of a shape ([FEE,SWAP] is the one list TransferSpec cannot express).
func (sh c03Shape) pkt() Pkt {
	if strings.HasPrefix(sh.Label, "[FEE,SWAP]") {
		return NewPkt(sh.Spec.Chan, sh.Spec.Base, sh.Spec.Amount, sh.Spec.Receiver, MemoJSON(sh.Spec.Fwd, feeActionJSON(sh.Spec.Fees), swapActionJSON))
	}
	return sh.Spec.Pkt()
}

func (sh c03Shape) usesSwap() bool { return strings.Contains(sh.Label, "SWAP") }

// toleratedSite: the only fault sites after which a SUCCESS acknowledgement is acceptable — the
// statistics update (deliberately swallowed) and the params read (fails closed to limit 0).
func toleratedSite(site string) bool {
	return strings.HasPrefix(site, "store.") && (strings.Contains(site, "[stats]") || site == "store.Get[params]")
}

func init() { register("C03", checkC03) }

func checkC03(tier string) *Report {
	rep := NewReport("C03", tier, "fault_enumeration")
	rep.Rule = "for each payload shape the fault-free run lists the fallible call sites reached; every plan with one fault and every plan with two faults (i<j) is executed to completion on a fresh branch; the wrapped ICS-20 app has 4 fault modes. Non-trivial = a plan whose fault was actually reached. Natural failures: every (state, env-caused failing transfer) on the full app. Real envelope: one block history (menu of routes x fee shapes x amounts x malformed/raw packets, in 5 environments reached by real transactions), every step through baseapp + IBC core and compared with its emulation."
	rep.Assumptions = []string{
		"INSTRUMENTED stand: a second orbiter keeper over the same store with decorated dependencies; only the wiring of depinject.go is replicated (conformance with the app's own stack is checked fault-free: identical acks and store hashes)",
		"IBC core discard-on-error is emulated in the fault-plan and natural-failure phases (DESIGN §1.3.1); the emulation is itself validated in the last phase, where the same packets go through IBC core's own RecvPacket/Acknowledgement handlers (09-localhost client, signed transactions, FinalizeBlock+Commit) and must give the same acknowledgement and stores, and every error acknowledgement relayed back must restore the complete ledger",
		"a fault = the decorated call returns an error without side effects (or, for the wrapped ICS-20 app: error ack / success without credit / credits 1 less / credits 1 more)",
	}
	full := tier == "thorough"
	worlds, err := buildWorlds(numWorkers())
	if err != nil {
		rep.HarnessError("fixture: %v", err)
		return rep
	}
	instrs := make([]*Instr, len(worlds))
	for i, w := range worlds {
		if instrs[i], err = NewInstr(w, true); err != nil { // with the harness' swap controller: shapes with TWO actions
			rep.HarnessError("instrumented stand: %v", err)
			return rep
		}
	}
	byWorld := map[*World]*Instr{}
	for i, w := range worlds {
		byWorld[w] = instrs[i]
	}
	shapes := worlds[0].c03Shapes(full)
	siteSeen := map[string]int{}
	tolerated := map[string]int{}
	type job struct {
		shape c03Shape
		plan  []int
		mode  string
	}
	// Phase 1: reference runs (sequential on world 0) -> call-site lists -> jobs
	var jobs []job
	refSites := map[string][]string{}
	{
		w, in := worlds[0], instrs[0]
		for _, sh := range shapes {
			ctx, err := sh.start(w)
			if err != nil {
				rep.HarnessError("start state of %s: %v", sh.Label, err)
				return rep
			}
			keyBefore := w.StateKey(ctx)
			// conformance of the replica: same packet on the app's own stack
			full1 := Branch(ctx)
			rFull := w.Recv(full1, sh.pkt())
			ins1 := Branch(ctx)
			rIns := in.Recv(ins1, sh.pkt(), nil, "")
			if sh.usesSwap() {
				if !rIns.Success {
					rep.HarnessError("swap shape %s does not succeed fault-free: %s", sh.Label, rIns.Ack)
					return rep
				}
			} else if string(rFull.Ack) != string(rIns.Ack) || w.StateKey(full1) != w.StateKey(ins1) || !rIns.Success {
				rep.HarnessError("instrumented stand does not conform to the app's stack for %s: ack %s vs %s (success=%v)", sh.Label, rFull.Ack, rIns.Ack, rIns.Success)
				return rep
			}
			rep.Count("replica_conformance_checks", 1)
			_ = keyBefore
			sites := in.Rec.FallibleSites()
			refSites[sh.Label] = sites
			for i, s := range sites {
				modes := []string{""}
				if s == "inner.OnRecvPacket" {
					modes = []string{"error-ack", "no-credit", "credit-less", "credit-more"}
					if sh.usesSwap() {
						// the balance precondition is on the DESTINATION denom; after a denomination change a
						// surplus credit in the source denom is invisible to it by construction (and the
						// surplus is a hypothetical of this fault model, not something ICS-20 does)
						modes = []string{"error-ack", "no-credit", "credit-less"}
					}
				}
				for _, m := range modes {
					jobs = append(jobs, job{sh, []int{i}, m})
				}
				// the same single fault as a PANIC of the called module (what a third-party keeper does when it is
				// reached with values it does not expect): whatever the middleware makes of it, it must not be a success
				// or an unanswered packet with part of the transfer done
				jobs = append(jobs, job{sh, []int{i}, "panic"})
			}
			for i := range sites {
				if len(sh.Pre) > 0 {
					break
				}
				for j := i + 1; j < len(sites); j++ {
					modes := []string{""}
					if sites[i] == "inner.OnRecvPacket" || sites[j] == "inner.OnRecvPacket" {
						modes = []string{"error-ack", "credit-less"}
						if full && !sh.usesSwap() {
							modes = []string{"error-ack", "no-credit", "credit-less", "credit-more"}
						}
					}
					for _, m := range modes {
						jobs = append(jobs, job{sh, []int{i, j}, m})
					}
				}
			}
		}
	}
	rep.Extra["store_layout_learned"] = worlds[0].learnLayout().String()
	rep.Extra["shapes"] = len(shapes)
	rep.Extra["fault_plans"] = len(jobs)
	for _, sh := range shapes[:min(3, len(shapes))] {
		rep.Sample(map[string]any{"shape": sh.Label, "fallible_call_sites_reached": refSites[sh.Label]})
	}

	var muSites = make(chan func(), 1024)
	done := make(chan struct{})
	go func() {
		for f := range muSites {
			f()
		}
		close(done)
	}()
	parallelFor(worlds, len(jobs), func(w *World, ji int) {
		in := byWorld[w]
		jb := jobs[ji]
		sh := jb.shape
		ctx, _ := sh.start(w)
		// fault-free post-state of the same shape on the same state (for the success clause)
		ref := Branch(ctx)
		in.Recv(ref, sh.pkt(), nil, "")
		refLedger := w.Snapshot(ref)
		pre := w.StateKey(ctx)
		plan := map[int]bool{}
		for _, i := range jb.plan {
			plan[i] = true
		}
		b := Branch(ctx)
		r := in.Recv(b, sh.pkt(), plan, jb.mode)
		rep.Count("evaluations", 1)
		rep.Count("fault_plan_executions", 1)
		var faultedSites []string
		firstFault := ""
		for _, c := range in.Rec.Calls {
			if c.Faulted {
				faultedSites = append(faultedSites, c.Site)
				if firstFault == "" {
					firstFault = c.Site
				}
			}
		}
		sites := refSites[sh.Label]
		planSites := []string{}
		for _, i := range jb.plan {
			planSites = append(planSites, fmt.Sprintf("%d:%s", i, sites[i]))
		}
		sig := fmt.Sprintf("shape=%s plan=%v mode=%s", sh.Label, planSites, jb.mode)
		group := firstFault
		pkt := sh.pkt()
		replay := mustJSON(map[string]any{"ops": []Op{{Label: sh.Label, Pkt: &pkt}}, "fault_plan": planSites, "inner_mode": jb.mode, "stray": sh.Stray,
			"note": "fault plans are replayed by re-running `bin/check C03 <tier>`; the op list alone is the fault-free run"})
		if len(faultedSites) == 0 {
			rep.Outcome("fault-not-reached")
			return
		}
		rep.Distinct(sig)
		muSites <- func() {
			for _, s := range faultedSites {
				siteSeen[s]++
			}
		}
		if r.Panic != "" && jb.mode == "panic" {
			// the injected panic propagated. Nothing is committed (the transaction aborts), but "a failure at any step yields an error
			// acknowledgement" — and a step that fails by panicking has failed: the sender is never refunded by a transaction that
			// aborts on every relay. On the unchanged tree every injected panic comes back as an error acknowledgement (fix 0d56326);
			// seed C03i moved the pre-transfer hook out of the recovery.
			rep.Outcome("injected-panic-propagated")
			rep.Violate(Violation{Kind: "failed-step-aborts-instead-of-error-ack", Group: group, Sig: sig, Replay: replay,
				What: fmt.Sprintf("a step of the handling failed by panicking and the panic left the receive path (the relayer's transaction aborts, no acknowledgement, no refund) instead of an error acknowledgement: %s under %s", trunc(r.Panic, 200), sig)})
			return
		}
		if r.Panic != "" {
			rep.Outcome("panic")
			rep.Violate(Violation{Kind: "panic-under-fault", Group: group, Sig: sig, Replay: replay, What: fmt.Sprintf("panic %s under %s", r.Panic, sig)})
			return
		}
		if r.NilAck {
			rep.Violate(Violation{Kind: "nil-ack-under-fault", Group: group, Sig: sig, Replay: replay, What: "nil acknowledgement under " + sig})
			return
		}
		if r.Success {
			post := w.Snapshot(b)
			bal, sup := LedgerDelta(refLedger, post)
			allTolerated := true
			for _, s := range faultedSites {
				if !toleratedSite(s) {
					allTolerated = false
				}
			}
			if len(bal) != 0 || len(sup) != 0 {
				rep.Outcome("success-with-partial-effects")
				rep.Violate(Violation{Kind: "success-ack-but-fund-movements-incomplete", Group: group, Sig: sig, Replay: replay,
					What: fmt.Sprintf("success acknowledgement although %v failed: ledger differs from the fault-free run by bal=%s supply=%s [%s]", faultedSites, w.deltaDiscrepancy(bal, Delta{}), sup, sig)})
				return
			}
			if !allTolerated {
				// all fund movements happened and the ack is success although a non-tolerated call failed.
				// Acceptable only if the failed call is not one of the steps the property names; event
				// emission failures ARE named (event manager) and must yield an error ack.
				rep.Outcome("success-despite-untolerated-fault")
				rep.Violate(Violation{Kind: "success-ack-despite-failed-step", Group: group, Sig: sig, Replay: replay,
					What: fmt.Sprintf("success acknowledgement although %v failed (only statistics / params-read failures may be swallowed) [%s]", faultedSites, sig)})
				return
			}
			rep.Outcome("success-after-tolerated-fault")
			muSites <- func() { tolerated[firstFault]++ }
			return
		}
		rep.Outcome("error-ack")
		if w.StateKey(b) != pre || r.Written {
			rep.Violate(Violation{Kind: "error-ack-left-trace", Group: group, Sig: sig, Replay: replay, What: "state changed although the acknowledgement is an error: " + sig})
		}
	})
	close(muSites)
	<-done
	rep.Extra["fault_sites_reached"] = siteSeen
	rep.Extra["tolerated_success_after_fault_at"] = tolerated
	var names []string
	for s := range siteSeen {
		names = append(names, s)
	}
	sort.Strings(names)
	// vacuity guards on GROUPS of fault sites (not on individual names: a correct refactoring may legitimately
	// stop reading a collection or emitting one particular event)
	groups := map[string][]string{
		"bank transfers (fees / sweep / internal route)": {"bank.SendCoins", "bank.SendCoinsFromModuleToModule", "bankmsg.Send"},
		"bridge servers":                                  {"cctp.DepositForBurn", "cctp.DepositForBurnWithCaller", "warp.RemoteTransfer", "warp.Token"},
		"wrapped ICS-20 application":                      {"inner.OnRecvPacket"},
		"event emission":                                  {"events.Emit["},
		"store access":                                    {"store."},
	}
	for g, prefixes := range groups {
		n := 0
		for site, c := range siteSeen {
			for _, p := range prefixes {
				if strings.HasPrefix(site, p) {
					n += c
				}
			}
		}
		rep.Guard(n > 0, "no fault was injected in the group %q (sites reached: %v)", g, names)
	}

	// ---------------- natural failures on the FULL application
	c03Natural(rep, worlds, full)
	c03GasAborts(rep, worlds, full)
	rep.Guard(rep.Outcomes["error-ack"] > 100, "too few error acks: %v", rep.Outcomes)

	// ---------------- the REAL envelopes (loop.go): signed transactions through baseapp, packets through IBC core's own
	// RecvPacket / Acknowledgement over the localhost client; all-or-nothing is observed where IBC itself discards and
	// refunds, and each step is compared with the emulated envelope on a branch of the same state
	if _, err := loopRun(rep, full); err != nil {
		rep.HarnessError("real-envelope history: %v", err)
	}
	rep.Guard(rep.Counters["loop_refunds_verified"] >= 100 && rep.Outcomes["real-success-ack"] >= 30,
		"real-envelope history too thin: refunds=%d successes=%d", rep.Counters["loop_refunds_verified"], rep.Outcomes["real-success-ack"])
	return rep
}

// c03Natural: failures that occur without injection — environment toggles through the owning modules'
// Msg servers and inputs that the bridges refuse — from every state of a small E1 prefix.
func c03Natural(rep *Report, worlds []*World, full bool) {
	w0 := worlds[0]
	alpha := []Op{OpEnv("ftf-pause"), OpEnv("ftf-blacklist-bob"), OpEnv("ftf-blacklist-fee1"), OpEnv("ftf-blacklist-orb"),
		OpEnv("cctp-pause-burn"), OpEnv("hyp-unroll-1"),
		w0.OpPauseProtocol("PROTOCOL_INTERNAL"), w0.OpPauseCC("PROTOCOL_CCTP", "0"), w0.OpPauseAction("ACTION_FEE"),
		w0.OpDeposit(w0.Orb, denomUSDC, 5)}
	depth := 1
	if full {
		depth = 2
	}
	orb := w0.Orb.String()
	var probes []TransferSpec
	fwds := []Fwd{w0.FwdCCTP(0), w0.FwdCCTPCaller(1), w0.FwdCCTP(2), w0.FwdHyp(1), w0.FwdHyp(3), w0.FwdInternal(w0.Bob), w0.FwdInternal(w0.Dust),
		{Kind: "hyp", Domain: 1, Token: b32(77), Recipient: b32(5), GasLimit: "0", MaxFee: "0uusdc", Tag: "hyp(unknown-token)"},
		{Kind: "cctp", Domain: 0, MintRecipient: make([]byte, 32), Tag: "cctp(zero-recipient)"},
		// degenerate optional attributes: a bridge that refuses them may be answered by a fallback inside the controller, and the
		// fallback can fail in its turn (over the burn limit, burning paused, token factory paused)
		{Kind: "cctp", Domain: 0, MintRecipient: b32(9), Caller: make([]byte, 32), Tag: "cctp(zero-caller)"},
		{Kind: "cctp", Domain: 1, MintRecipient: make([]byte, 32), Caller: make([]byte, 32), Tag: "cctp(zero-recipient,zero-caller)"},
		{Kind: "hyp", Domain: 1, Token: w0.TokenT0.Bytes(), Recipient: make([]byte, 32), GasLimit: "0", MaxFee: "0uusdc", Tag: "hyp(zero-recipient)"},
		{Kind: "hyp", Domain: 3, Token: w0.TokenT0.Bytes(), Recipient: b32(5), Hook: make([]byte, 32), GasLimit: "0", MaxFee: "0uusdc", Tag: "hyp(no-router,zero-hook)"}}
	for _, f := range fwds {
		for _, fe := range w0.feeMenu() {
			for _, a := range []string{"10000", fmt.Sprint(burnLimit + 1)} {
				probes = append(probes, TransferSpec{"channel-0", denomUSDC, a, orb, f, fe})
			}
		}
	}
	// an action that cannot execute (no controller under ACTION_SWAP on the deployed chain) FOLLOWED by a fee
	// action that can: the failure of a step that is not the last one must still refuse the transfer
	feeAttrs := func(to string) string {
		return fmt.Sprintf(`{"@type":"%s","fees_info":[{"recipient":"%s","basis_points":{"value":100}}]}`, urlFee, to)
	}
	var mustRefuse []Pkt
	for _, f := range []Fwd{w0.FwdInternal(w0.Bob), w0.FwdCCTP(0), w0.FwdHyp(1)} {
		mustRefuse = append(mustRefuse, NewPkt("channel-0", denomUSDC, "10000", orb,
			MemoJSON(f, `{"id":"ACTION_SWAP","attributes":`+feeAttrs(w0.Fee2.String())+`}`, feeActionJSON([]FeeSpec{{To: w0.Fee1.String(), Bps: 100}}))))
	}
	// which probes execute in the initial state: a refusal of one of them in a state reached by ONE environment
	// operation is a refusal that operation caused (vacuity guard below; independent of the refusal's wording)
	baseOK := make([]bool, len(probes))
	for i := range probes {
		baseOK[i] = w0.Recv(Branch(w0.Ctx), probes[i].Pkt()).Success
	}
	sub := NewReport(rep.Prop, rep.Tier, rep.Level)
	x := &Explorer{Rep: sub, Prefix: alpha, Depth: depth}
	x.OnState = func(wk *Worker, n Node, ctx sdk.Context, _ any) {
		w := wk.W
		before := w.Snapshot(ctx)
		for i := range mustRefuse {
			pkt := mustRefuse[i]
			b := Branch(ctx)
			r := w.Recv(b, pkt)
			rep.Count("natural_executions", 1)
			rep.Count("evaluations", 1)
			sig := "natural: " + strings.Join(pathLabels(alpha, n.Path), " ; ") + fmt.Sprintf(" ; [SWAP(no controller),FEE] #%d", i)
			if r.Success || r.Panic != "" {
				rep.Violate(Violation{Kind: "success-ack-despite-failed-step", Group: "natural failing-first-action", Sig: sig,
					Replay: mustJSON(map[string]any{"ops": append(n.Ops(alpha), Op{Label: "[SWAP,FEE]", Pkt: &pkt}), "expect": []replayExpect{{Kind: "last_success", Want: false}}}),
					What:   fmt.Sprintf("payload whose first action cannot execute (no controller) followed by a fee action was not refused (success=%v panic=%q) [%s]", r.Success, r.Panic, sig)})
			} else {
				rep.Outcome("natural-error-ack")
				rep.Count("refusal:failing-non-last-action", 1)
			}
		}
		for i := range probes {
			t := probes[i]
			pkt := t.Pkt()
			b := Branch(ctx)
			r := w.Recv(b, pkt)
			rep.Count("natural_executions", 1)
			rep.Count("evaluations", 1)
			sig := "natural: " + strings.Join(pathLabels(alpha, n.Path), " ; ") + " ; " + t.Label()
			replay := mustJSON(map[string]any{"ops": append(n.Ops(alpha), Op{Label: t.Label(), Pkt: &pkt}), "expect": []replayExpect{{Kind: "no_panic", Want: true}, {Kind: "orb_not_increased", Want: true}}})
			if r.Panic != "" {
				rep.Violate(Violation{Kind: "panic", Group: "natural", Sig: sig, Replay: replay, What: "panic " + r.Panic + " in " + sig})
				continue
			}
			if !r.Success {
				rep.Outcome("natural-error-ack")
				cls := classifyRefusal(r.AckErr())
				rep.Distinct("natural-refusal:" + cls + ":" + t.Fwd.String())
				rep.Count("refusal:"+cls, 1)
				if len(n.Path) == 1 && baseOK[i] {
					rep.Count("refusal-caused-by:"+alpha[n.Path[0]].Label, 1)
				}
				if len(n.Path) == 0 {
					rep.Count("refusal-of-input:"+t.Fwd.String(), 1)
				}
				continue
			}
			rep.Outcome("natural-success")
			after := w.Snapshot(b)
			bal, sup := LedgerDelta(before, after)
			expBal, expSup, _, err := w.expectedDelta(t, before.Get(w.Orb, t.Base).BigInt())
			if err != nil || !bal.Equal(expBal) || !sup.Equal(expSup) {
				rep.Violate(Violation{Kind: "success-ack-but-fund-movements-incomplete", Group: "natural " + t.Fwd.String(), Sig: sig, Replay: replay,
					What: fmt.Sprintf("success acknowledgement but the ledger delta bal=%s supply=%s is not the complete transfer (want bal=%s supply=%s, err=%v) [%s]", bal, sup, expBal, expSup, err, sig)})
			}
		}
	}
	x.RunOn(worlds)
	rep.Count("natural_states", sub.Counters["states"])
	for _, e := range sub.harnessErr {
		rep.HarnessError("%s", e)
	}
	// vacuity guard: enough DIFFERENT natural causes of refusal were exercised — counted by the environment operation
	// that caused the refusal and by the refused input, never by the wording of the acknowledgement (the classes
	// "refusal:<wording>" are kept in the evidence for the reader only)
	nCls := 0
	for k := range rep.Counters {
		if strings.HasPrefix(k, "refusal-caused-by:") || strings.HasPrefix(k, "refusal-of-input:") {
			nCls++
		}
	}
	rep.Guard(nCls >= 8, "only %d distinct natural causes of refusal observed (%v)", nCls, rep.Counters)
}

func classifyRefusal(e string) string {
	switch {
	case strings.Contains(e, "blacklisted") || strings.Contains(e, "blocked from"):
		return "blacklisted"
	case strings.Contains(e, "ABCI code: 2:"):
		return "blacklisted" // blockibc: fiattokenfactory ErrUnauthorized (sender/receiver blacklisted)
	case strings.Contains(e, "chain is paused") || strings.Contains(e, "ABCI code: 7:"): // fiattokenfactory ErrPaused
		return "paused-token-factory"
	case strings.Contains(e, "burn limit"):
		return "burn-limit"
	case strings.Contains(e, "no enrolled router") || strings.Contains(e, "remote router"):
		return "no-router"
	case strings.Contains(e, "is not allowed to receive funds"):
		return "blocked-recipient"
	case strings.Contains(e, "is paused"):
		return "paused-orbiter"
	case strings.Contains(e, "burning and minting are paused"):
		return "cctp-paused"
	case strings.Contains(e, "hyperlane.warp.v1.HypToken"):
		return "unknown-token"
	case strings.Contains(e, "destination token messenger"):
		return "no-token-messenger"
	case strings.Contains(e, "mint recipient must be nonzero"):
		return "zero-mint-recipient"
	case strings.Contains(e, "amount mismatch"):
		return "balance-precondition"
	}
	if len(e) > 90 {
		e = "…" + e[len(e)-90:]
	}
	return "other:" + e
}

// ---------------------------------------------------------------------------- gas exhaustion = abort points
//
// Running out of gas is the one failure the middleware does NOT turn into an acknowledgement: it re-raises the panic so
// that the transaction aborts (and everything it wrote is discarded). Every point at which the gas meter is charged is
// therefore a point at which the handling of a packet can be cut off — a crash point. The phase enumerates ALL of them
// for each payload shape: a recording meter lists the cumulative charge after every ConsumeGas of an unlimited run; for
// each value g the packet is delivered with a limit of g-1 (cut off exactly there) on a branch that is discarded; then
// the same packet is delivered, with unlimited gas, to a fresh branch of the committed state. Required: a cut-off run
// ends in the out-of-gas panic or in exactly the unlimited answer (never in another acknowledgement that commits
// something), and the delivery AFTER the abort is identical — acknowledgement and whole-ledger delta — to the delivery
// on an instance that never saw an abort: nothing may survive the abort, in the stores or outside them (seed C01i).

type recordingGasMeter struct {
	storetypes.GasMeter
	points []uint64
}

func (m *recordingGasMeter) ConsumeGas(amount storetypes.Gas, descriptor string) {
	m.GasMeter.ConsumeGas(amount, descriptor)
	if n := len(m.points); amount > 0 && (n == 0 || m.points[n-1] != m.GasMeter.GasConsumed()) {
		m.points = append(m.points, m.GasMeter.GasConsumed())
	}
}

func c03GasAborts(rep *Report, worlds []*World, full bool) {
	w0 := worlds[0]
	orb := w0.Orb.String()
	fee1 := []FeeSpec{{To: w0.Fee1.String(), Bps: 100}}
	shapes := []TransferSpec{
		{"channel-0", denomUSDC, "10000", orb, w0.FwdInternal(w0.Bob), nil},
		{"channel-0", denomUSDC, "10000", orb, w0.FwdInternal(w0.Bob), fee1},
		{"channel-0", denomUSDC, "10000", orb, w0.FwdCCTP(0), fee1},
		{"channel-0", denomUSDC, "10000", orb, w0.FwdHyp(1), fee1},
	}
	if full {
		shapes = append(shapes, TransferSpec{"channel-1", denomUSDC, "10000", orb, w0.FwdCCTPCaller(1), nil},
			TransferSpec{"channel-0", denomUSDC, "10000", orb, w0.FwdHyp(1), nil},
			TransferSpec{"channel-0", denomUSDC, "10000", orb, w0.FwdInternal(w0.Bob), w0.feeMenu()[2]},
			TransferSpec{"channel-0", denomUSDC, fmt.Sprint(burnLimit + 1), orb, w0.FwdCCTP(0), nil}) // refused late
	}
	type job struct {
		shape int
		limit uint64
	}
	var jobs []job
	refs := make([]struct {
		ack   string
		delta string
		ok    bool
	}, len(shapes))
	deliver := func(w *World, pkt Pkt) (RecvResult, string) {
		b := Branch(w.Ctx)
		before := w.Snapshot(b)
		r := w.Recv(b, pkt)
		bal, sup := LedgerDelta(before, w.Snapshot(b))
		return r, bal.String() + sup.String()
	}
	for si, sp := range shapes {
		pkt := sp.Pkt()
		b := Branch(w0.Ctx)
		m := &recordingGasMeter{GasMeter: storetypes.NewInfiniteGasMeter()}
		r := w0.Recv(b.WithGasMeter(m), pkt)
		if r.Panic != "" {
			rep.HarnessError("gas phase: reference run of %s panicked: %s", sp.Label(), r.Panic)
			return
		}
		r0, d0 := deliver(w0, pkt)
		refs[si].ack, refs[si].delta, refs[si].ok = string(r0.Ack), d0, r0.Success
		for _, g := range m.points {
			jobs = append(jobs, job{si, g - 1})
		}
		rep.Extra[fmt.Sprintf("gas_abort_points:%s", sp.Label())] = len(m.points)
	}
	parallelFor(worlds, len(jobs), func(w *World, i int) {
		j := jobs[i]
		sp := shapes[j.shape]
		pkt := sp.Pkt()
		sig := fmt.Sprintf("gas limit %d on %s", j.limit, sp.Label())
		replay := mustJSON(map[string]any{"ops": []Op{{Label: sp.Label(), Pkt: &pkt}}, "gas_limit_of_the_aborted_delivery": j.limit, "then": "the same packet with unlimited gas"})
		cut := w.Recv(Branch(w.Ctx).WithGasMeter(storetypes.NewGasMeter(j.limit)), pkt)
		rep.Count("evaluations", 1)
		rep.Count("gas_abort_points_executed", 1)
		switch {
		case cut.Panic != "" && (strings.HasSuffix(cut.PanicType, ".ErrorOutOfGas") || strings.HasSuffix(cut.PanicType, ".ErrorGasOverflow")):
			rep.Outcome("cut-off-by-gas(transaction aborts)")
		case cut.Panic != "":
			rep.Violate(Violation{Kind: "panic", Group: "gas " + sp.Label(), Sig: sig, Replay: replay, What: "a delivery cut off by its gas limit ended in another panic than out-of-gas: " + cut.Panic + " [" + sig + "]"})
		case string(cut.Ack) == refs[j.shape].ack:
			rep.Outcome("completed-within-the-limit")
		default:
			// an acknowledgement other than the unlimited run's although the meter is exhausted: the exhaustion was swallowed
			rep.Violate(Violation{Kind: "gas-exhaustion-swallowed", Group: "gas " + sp.Label(), Sig: sig, Replay: replay,
				What: fmt.Sprintf("a delivery that ran out of gas was answered with the acknowledgement %s instead of aborting (unlimited run: %s) [%s]", trunc(string(cut.Ack), 160), trunc(refs[j.shape].ack, 120), sig)})
		}
		// the delivery after the abort, on the committed state
		after, d := deliver(w, pkt)
		rep.Count("evaluations", 1)
		if after.Panic != "" || string(after.Ack) != refs[j.shape].ack || d != refs[j.shape].delta {
			rep.Violate(Violation{Kind: "delivery-after-an-aborted-delivery-differs", Group: "gas " + sp.Label(), Sig: sig, Replay: replay,
				What: fmt.Sprintf("after a delivery of the same packet was cut off by its gas limit (everything it wrote discarded), the packet is handled differently from an instance that never saw the abort: ack %s (panic %q), ledger delta %s; expected ack %s, delta %s [%s]",
					trunc(string(after.Ack), 120), after.Panic, trunc(d, 300), trunc(refs[j.shape].ack, 120), trunc(refs[j.shape].delta, 300), sig)})
		} else {
			rep.Outcome("delivery-after-abort-identical")
			rep.Distinct("gas:" + sig)
		}
	})
	rep.Guard(rep.Outcomes["cut-off-by-gas(transaction aborts)"] >= 100 && rep.Outcomes["delivery-after-abort-identical"] >= 100, "gas-abort phase vacuous: %v", rep.Outcomes)
}
