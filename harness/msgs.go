package simapp

// msgs.go — serialisable authority / environment messages.

import (
	"encoding/json"
	"fmt"
	"strings"

	cctptypes "github.com/circlefin/noble-cctp/x/cctp/types"
	ftftypes "github.com/circlefin/noble-fiattokenfactory/x/fiattokenfactory/types"
	warptypes "github.com/bcp-innovations/hyperlane-cosmos/x/warp/types"
	sdk "github.com/cosmos/cosmos-sdk/types"

	"cosmossdk.io/math"

	adaptertypes "github.com/noble-assets/orbiter/v2/types/component/adapter"
	dispatchertypes "github.com/noble-assets/orbiter/v2/types/component/dispatcher"
	"github.com/noble-assets/orbiter/v2/types/core"
	executortypes "github.com/noble-assets/orbiter/v2/types/component/executor"
	forwardertypes "github.com/noble-assets/orbiter/v2/types/component/forwarder"
)

func jsonMarshal(v any) ([]byte, error) { return json.Marshal(v) }

// MsgSpec names one orbiter Msg RPC with its arguments.
type MsgSpec struct {
	RPC     string   // PauseProtocol, UnpauseProtocol, PauseCrossChains, UnpauseCrossChains, PauseAction, UnpauseAction, UpdateParams, ReplaceDepositForBurn
	Signer  string
	Proto   string   `json:",omitempty"`
	CPs     []string `json:",omitempty"`
	CPsRaw  [][]byte `json:",omitempty"` // counterparty ids as raw bytes (strings that are not valid UTF-8 do not survive JSON)
	Action  string   `json:",omitempty"`
	MaxSize uint32   `json:",omitempty"`
	OrigMsg, OrigAtt, NewCaller, NewRecipient []byte `json:",omitempty"`
}

func (m *MsgSpec) Build() (sdk.Msg, error) {
	if m.CPsRaw != nil {
		m.CPs = nil
		for _, b := range m.CPsRaw {
			m.CPs = append(m.CPs, string(b))
		}
	}
	switch m.RPC {
	case "PauseProtocol":
		return &forwardertypes.MsgPauseProtocol{Signer: m.Signer, ProtocolId: m.Proto}, nil
	case "UnpauseProtocol":
		return &forwardertypes.MsgUnpauseProtocol{Signer: m.Signer, ProtocolId: m.Proto}, nil
	case "PauseCrossChains":
		return &forwardertypes.MsgPauseCrossChains{Signer: m.Signer, ProtocolId: m.Proto, CounterpartyIds: m.CPs}, nil
	case "UnpauseCrossChains":
		return &forwardertypes.MsgUnpauseCrossChains{Signer: m.Signer, ProtocolId: m.Proto, CounterpartyIds: m.CPs}, nil
	case "PauseAction":
		return &executortypes.MsgPauseAction{Signer: m.Signer, ActionId: m.Action}, nil
	case "UnpauseAction":
		return &executortypes.MsgUnpauseAction{Signer: m.Signer, ActionId: m.Action}, nil
	case "UpdateParams":
		return &adaptertypes.MsgUpdateParams{Signer: m.Signer, Params: adaptertypes.Params{MaxPassthroughPayloadSize: m.MaxSize}}, nil
	case "ReplaceDepositForBurn":
		return &forwardertypes.MsgReplaceDepositForBurn{Signer: m.Signer, OriginalMessage: m.OrigMsg, OriginalAttestation: m.OrigAtt,
			NewDestinationCaller: m.NewCaller, NewMintRecipient: m.NewRecipient}, nil
	}
	return nil, fmt.Errorf("unknown RPC %q", m.RPC)
}

func opMsg(label string, m MsgSpec) Op { return Op{Label: label, Msg: &m} }

func (w *World) OpPauseProtocol(p string) Op {
	return opMsg("PauseProtocol("+p+")", MsgSpec{RPC: "PauseProtocol", Signer: w.Authority, Proto: p})
}
func (w *World) OpUnpauseProtocol(p string) Op {
	return opMsg("UnpauseProtocol("+p+")", MsgSpec{RPC: "UnpauseProtocol", Signer: w.Authority, Proto: p})
}
func (w *World) OpPauseCC(p string, cps ...string) Op {
	return opMsg(fmt.Sprintf("PauseCrossChains(%s,%q)", p, cps), MsgSpec{RPC: "PauseCrossChains", Signer: w.Authority, Proto: p, CPs: cps})
}
func (w *World) OpUnpauseCC(p string, cps ...string) Op {
	return opMsg(fmt.Sprintf("UnpauseCrossChains(%s,%q)", p, cps), MsgSpec{RPC: "UnpauseCrossChains", Signer: w.Authority, Proto: p, CPs: cps})
}
// OpPauseCCRaw: counterparty ids given as raw bytes (not necessarily valid UTF-8).
func (w *World) OpPauseCCRaw(p string, cps ...string) Op {
	var raw [][]byte
	for _, c := range cps {
		raw = append(raw, []byte(c))
	}
	return opMsg(fmt.Sprintf("PauseCrossChains(%s,%q)", p, cps), MsgSpec{RPC: "PauseCrossChains", Signer: w.Authority, Proto: p, CPsRaw: raw})
}
func (w *World) OpPauseAction(a string) Op {
	return opMsg("PauseAction("+a+")", MsgSpec{RPC: "PauseAction", Signer: w.Authority, Action: a})
}
func (w *World) OpUnpauseAction(a string) Op {
	return opMsg("UnpauseAction("+a+")", MsgSpec{RPC: "UnpauseAction", Signer: w.Authority, Action: a})
}
func (w *World) OpUpdateParams(v uint32) Op {
	return opMsg(fmt.Sprintf("UpdateParams(%d)", v), MsgSpec{RPC: "UpdateParams", Signer: w.Authority, MaxSize: v})
}
func (w *World) OpDeposit(to sdk.AccAddress, denom string, amt int64) Op {
	return Op{Label: fmt.Sprintf("Deposit(%s,%d%s)", shortAddr(to.String()), amt, denom), Deposit: &DepSpec{To: to.String(), Denom: denom, Amt: amt}}
}
func (w *World) OpRecv(label string, p Pkt) Op { return Op{Label: label, Pkt: &p} }

// withSigner returns a copy of a message op signed by someone else.
func withSigner(o Op, signer, tag string) Op {
	m := *o.Msg
	m.Signer = signer
	return Op{Label: o.Label + "@" + tag, Msg: &m}
}

// ---------------------------------------------------------------------------------------------
// Environment toggles: natural failure causes, through the owning module's own Msg server.

func (w *World) ApplyEnv(ctx sdk.Context, env string) error {
	if strings.HasPrefix(env, "init-genesis-params:") {
		return w.applyGenesisEnv(ctx, env)
	}
	if strings.HasPrefix(env, "stat-update:") {
		return w.applyStatEnv(ctx, env)
	}
	var msg sdk.Msg
	switch env {
	case "ftf-pause":
		msg = &ftftypes.MsgPause{From: w.FtfPauser.String()}
	case "ftf-unpause":
		msg = &ftftypes.MsgUnpause{From: w.FtfPauser.String()}
	case "ftf-blacklist-bob":
		msg = &ftftypes.MsgBlacklist{From: w.FtfBlacklister.String(), Address: w.Bob.String()}
	case "ftf-blacklist-fee1":
		msg = &ftftypes.MsgBlacklist{From: w.FtfBlacklister.String(), Address: w.Fee1.String()}
	case "ftf-blacklist-orb":
		msg = &ftftypes.MsgBlacklist{From: w.FtfBlacklister.String(), Address: w.Orb.String()}
	case "cctp-pause-burn":
		msg = &cctptypes.MsgPauseBurningAndMinting{From: w.CctpOwner.String()}
	case "hyp-unroll-1":
		msg = &warptypes.MsgUnrollRemoteRouter{Owner: w.Alice.String(), TokenId: w.TokenT0, ReceiverDomain: 1}
	case "bulk-pause-150":
		// more entries than one default query page (100): 100 IBC channels, then 50 CCTP domains (two messages,
		// the per-message cap is 100)
		var a, b []string
		for i := 0; i < 100; i++ {
			a = append(a, fmt.Sprintf("channel-%d", 1000+i))
		}
		for i := 0; i < 50; i++ {
			b = append(b, fmt.Sprint(2000+i))
		}
		for _, op := range []Op{w.OpPauseCC("PROTOCOL_IBC", a...), w.OpPauseCC("PROTOCOL_CCTP", b...)} {
			if r := w.Apply(ctx, op); !r.Succeeded() {
				return fmt.Errorf("bulk pause failed: %v", r.Msg)
			}
		}
		return nil
	case "bulk-stats-130":
		for i := 0; i < 130; i++ {
			u := statUpdate{1, fmt.Sprintf("channel-%d", i%7), fmt.Sprintf("cctp:%d", 3000+i), "uusdc", int64(10 + i)}
			if i%3 == 1 {
				u.Fwd = fmt.Sprintf("hyp:%d", 3000+i)
			}
			if err := w.applyStatUpdate(ctx, u); err != nil {
				return err
			}
		}
		return nil
	case "ensure-stray-5uusdc":
		have := w.App.BankKeeper.GetBalance(ctx, w.Orb, denomUSDC).Amount
		if have.LT(math.NewInt(5)) {
			return w.Deposit(ctx, w.Orb, denomUSDC, 5-have.Int64())
		}
		return nil
	case "genesis-roundtrip":
		return w.applyGenesisEnv(ctx, env)
	case "hyp-synthetic":
		if w.App.BankKeeper.GetSupply(ctx, w.DenomSyn).Amount.IsPositive() {
			return fmt.Errorf("synthetic token already created")
		}
		id, err := w.createSynthetic(ctx)
		if err == nil && id != w.TokenSyn {
			err = fmt.Errorf("synthetic token id %s differs from the one learned on W0 %s", id, w.TokenSyn)
		}
		return err
	case "seed-stats-int64":
		// totals just above MaxInt64 on (IBC channel-1 -> INTERNAL noble, uusdc): a range later arithmetic or
		// conversions may mishandle although every single transfer amount is small
		v, _ := math.NewIntFromString("9223372036854775812")
		src := core.CrossChainID{ProtocolId: core.PROTOCOL_IBC, CounterpartyId: "channel-1"}
		dst := core.CrossChainID{ProtocolId: core.PROTOCOL_INTERNAL, CounterpartyId: "noble"}
		d := w.App.OrbiterKeeper.Dispatcher()
		if err := d.SetDispatchedAmount(ctx, &src, &dst, denomUSDC, dispatchertypes.AmountDispatched{Incoming: v, Outgoing: v}); err != nil {
			return err
		}
		return d.SetDispatchedCounts(ctx, &src, &dst, 2)
	case "seed-stats-top":
		// A state reachable through genesis import (statistics continue from imported totals, C17):
		// route (IBC channel-1 -> INTERNAL noble, uusdc) starts 10 below the top of the 256-bit range.
		return w.seedStatsTop(ctx)
	default:
		return fmt.Errorf("unknown env toggle %q", env)
	}
	r := w.Msg(ctx, msg)
	if !r.OK {
		return fmt.Errorf("env %s failed: %s %s", env, r.Err, r.Panic)
	}
	return nil
}

func (w *World) seedStatsTop(ctx sdk.Context) error {
	top, _ := math.NewIntFromString(maxUint256Str)
	top = top.SubRaw(10)
	src := core.CrossChainID{ProtocolId: core.PROTOCOL_IBC, CounterpartyId: "channel-1"}
	dst := core.CrossChainID{ProtocolId: core.PROTOCOL_INTERNAL, CounterpartyId: "noble"}
	d := w.App.OrbiterKeeper.Dispatcher()
	if d.HasDispatchedAmount(ctx, &src, &dst, denomUSDC) {
		return fmt.Errorf("route already has statistics")
	}
	if err := d.SetDispatchedAmount(ctx, &src, &dst, denomUSDC, dispatchertypes.AmountDispatched{Incoming: top, Outgoing: top}); err != nil {
		return err
	}
	return d.SetDispatchedCounts(ctx, &src, &dst, 1)
}

func OpEnv(env string) Op { return Op{Label: "Env(" + env + ")", Env: env} }

func jsonUnmarshal(b []byte, v any) error { return json.Unmarshal(b, v) }
