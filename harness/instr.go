package simapp

// instr.go — the INSTRUMENTED stand (DESIGN §1.2): a SECOND orbiter keeper built by the harness over the
// SAME orbiter store key and the same real keepers, with every dependency wrapped in a decorator that
// (a) records each call with its arguments, (b) can fail the k-th fallible call of a fault plan.
// All orbiter code executed is /repo's; only the wiring of depinject.go:InjectComponents is replicated.

import (
	"bytes"
	"context"
	"encoding/hex"
	"errors"
	"fmt"
	"sort"
	"strings"
	"sync"

	warpkeeper "github.com/bcp-innovations/hyperlane-cosmos/x/warp/keeper"
	warptypes "github.com/bcp-innovations/hyperlane-cosmos/x/warp/types"
	cctpkeeper "github.com/circlefin/noble-cctp/x/cctp/keeper"
	cctptypes "github.com/circlefin/noble-cctp/x/cctp/types"
	"github.com/circlefin/noble-fiattokenfactory/x/blockibc"
	"github.com/cosmos/gogoproto/proto"
	"google.golang.org/protobuf/runtime/protoiface"

	"cosmossdk.io/core/event"
	corestore "cosmossdk.io/core/store"
	"cosmossdk.io/math"
	addresscodec "github.com/cosmos/cosmos-sdk/codec/address"
	"github.com/cosmos/cosmos-sdk/runtime"
	sdk "github.com/cosmos/cosmos-sdk/types"
	bankkeeper "github.com/cosmos/cosmos-sdk/x/bank/keeper"
	banktypes "github.com/cosmos/cosmos-sdk/x/bank/types"
	"github.com/cosmos/ibc-go/v8/modules/apps/transfer"
	channeltypes "github.com/cosmos/ibc-go/v8/modules/core/04-channel/types"
	porttypes "github.com/cosmos/ibc-go/v8/modules/core/05-port/types"
	ibcexported "github.com/cosmos/ibc-go/v8/modules/core/exported"

	orbiter "github.com/noble-assets/orbiter/v2"
	modulev1 "github.com/noble-assets/orbiter/v2/api/module/v1"
	"github.com/noble-assets/orbiter/v2/controller"
	actionctrl "github.com/noble-assets/orbiter/v2/controller/action"
	adapterctrl "github.com/noble-assets/orbiter/v2/controller/adapter"
	forwardingctrl "github.com/noble-assets/orbiter/v2/controller/forwarding"
	"github.com/noble-assets/orbiter/v2/entrypoint"
	orbkeeper "github.com/noble-assets/orbiter/v2/keeper"
	"github.com/noble-assets/orbiter/v2/testutil/testdata"
	orbtypes "github.com/noble-assets/orbiter/v2/types"
	forwardercomp "github.com/noble-assets/orbiter/v2/keeper/component/forwarder"
	forwardertypes "github.com/noble-assets/orbiter/v2/types/component/forwarder"
	forwardingtypes "github.com/noble-assets/orbiter/v2/types/controller/forwarding"
	"github.com/noble-assets/orbiter/v2/types/core"
)

var errInjected = errors.New("injected fault")

// Call: one recorded dependency call.
type Call struct {
	Site     string // e.g. "bank.SendCoins", "store.Get[params]", "cctp.DepositForBurn", "inner.OnRecvPacket"
	Args     string
	Msg      proto.Message `json:"-"`
	Fallible bool
	Faulted  bool
}

// Recorder + fault plan of one execution.
type Recorder struct {
	Calls []Call
	nFall int
	// Plan: indices (in the order of fallible calls) that must fail; Mode for inner.OnRecvPacket faults.
	Plan      map[int]bool
	InnerMode string // "error-ack" | "no-credit" | "credit-less" | "credit-more" (only when the planned index is inner.OnRecvPacket)
	Quiet     bool   // do not record store calls' arguments (speed)
	PanicMode bool   // the planned calls PANIC instead of returning an error (a third-party module reached with hostile values)
}

func (r *Recorder) Reset(plan map[int]bool, innerMode string) {
	r.Calls = r.Calls[:0]
	r.nFall = 0
	r.Plan = plan
	r.InnerMode = innerMode
}

// hit records a call; returns true if the plan says this fallible call must fail.
func (r *Recorder) hit(site, args string, msg proto.Message, fallible bool) bool {
	c := Call{Site: site, Args: args, Msg: msg, Fallible: fallible}
	if fallible {
		if r.Plan[r.nFall] {
			c.Faulted = true
		}
		r.nFall++
	}
	r.Calls = append(r.Calls, c)
	if c.Faulted && r.PanicMode {
		panic("injected panic at " + site)
	}
	return c.Faulted
}

func (r *Recorder) FallibleSites() []string {
	var out []string
	for _, c := range r.Calls {
		if c.Fallible {
			out = append(out, c.Site)
		}
	}
	return out
}

func (r *Recorder) Find(site string) []Call {
	var out []Call
	for _, c := range r.Calls {
		if c.Site == site {
			out = append(out, c)
		}
	}
	return out
}

// ------------------------------------------------------------------------- decorators

type bankDeco struct {
	bankkeeper.Keeper // embedded: methods a changed expected-keeper interface adds are passed through undecorated
	rec *Recorder
}

func (b bankDeco) GetBalance(ctx context.Context, addr sdk.AccAddress, denom string) sdk.Coin {
	c := b.Keeper.GetBalance(ctx, addr, denom)
	b.rec.hit("bank.GetBalance", fmt.Sprintf("%s %s -> %s", addr, denom, c), nil, false)
	return c
}

func (b bankDeco) SendCoinsFromModuleToModule(ctx context.Context, from, to string, amt sdk.Coins) error {
	if b.rec.hit("bank.SendCoinsFromModuleToModule", fmt.Sprintf("%s -> %s %s", from, to, amt), nil, true) {
		return errInjected
	}
	return b.Keeper.SendCoinsFromModuleToModule(ctx, from, to, amt)
}

func (b bankDeco) SendCoins(ctx context.Context, from, to sdk.AccAddress, amt sdk.Coins) error {
	if b.rec.hit("bank.SendCoins", fmt.Sprintf("%s -> %s %s", from, to, amt), nil, true) {
		return errInjected
	}
	return b.Keeper.SendCoins(ctx, from, to, amt)
}

type bankMsgDeco struct {
	banktypes.MsgServer
	rec *Recorder
}

func (b bankMsgDeco) Send(ctx context.Context, msg *banktypes.MsgSend) (*banktypes.MsgSendResponse, error) {
	if b.rec.hit("bankmsg.Send", msg.String(), msg, true) {
		return nil, errInjected
	}
	return b.MsgServer.Send(ctx, msg)
}

type cctpDeco struct {
	cctptypes.MsgServer
	rec *Recorder
}

func (c cctpDeco) DepositForBurn(ctx context.Context, m *cctptypes.MsgDepositForBurn) (*cctptypes.MsgDepositForBurnResponse, error) {
	if c.rec.hit("cctp.DepositForBurn", m.String(), m, true) {
		return nil, errInjected
	}
	return c.MsgServer.DepositForBurn(ctx, m)
}

func (c cctpDeco) DepositForBurnWithCaller(ctx context.Context, m *cctptypes.MsgDepositForBurnWithCaller) (*cctptypes.MsgDepositForBurnWithCallerResponse, error) {
	if c.rec.hit("cctp.DepositForBurnWithCaller", m.String(), m, true) {
		return nil, errInjected
	}
	return c.MsgServer.DepositForBurnWithCaller(ctx, m)
}

func (c cctpDeco) ReplaceDepositForBurn(ctx context.Context, m *cctptypes.MsgReplaceDepositForBurn) (*cctptypes.MsgReplaceDepositForBurnResponse, error) {
	if c.rec.hit("cctp.ReplaceDepositForBurn", m.String(), m, true) {
		return nil, errInjected
	}
	return c.MsgServer.ReplaceDepositForBurn(ctx, m)
}

type hypDeco struct {
	forwardingtypes.HyperlaneHandler
	rec *Recorder
}

func (h hypDeco) RemoteTransfer(ctx context.Context, m *warptypes.MsgRemoteTransfer) (*warptypes.MsgRemoteTransferResponse, error) {
	if h.rec.hit("warp.RemoteTransfer", m.String(), m, true) {
		return nil, errInjected
	}
	return h.HyperlaneHandler.RemoteTransfer(ctx, m)
}

func (h hypDeco) Token(ctx context.Context, q *warptypes.QueryTokenRequest) (*warptypes.QueryTokenResponse, error) {
	if h.rec.hit("warp.Token", q.String(), q, true) {
		return nil, errInjected
	}
	return h.HyperlaneHandler.Token(ctx, q)
}

type eventDeco struct {
	event.Service
	rec *Recorder
}

func (e eventDeco) EventManager(ctx context.Context) event.Manager {
	return eventMgrDeco{e.Service.EventManager(ctx), e.rec}
}

type eventMgrDeco struct {
	event.Manager
	rec *Recorder
}

func (e eventMgrDeco) Emit(ctx context.Context, ev protoiface.MessageV1) error {
	name := fmt.Sprintf("%T", ev)
	if i := strings.LastIndex(name, "."); i >= 0 {
		name = name[i+1:]
	}
	if e.rec.hit("events.Emit["+name+"]", "", nil, true) {
		return errInjected
	}
	return e.Manager.Emit(ctx, ev)
}
func (e eventMgrDeco) EmitKV(ctx context.Context, t string, a ...event.Attribute) error {
	return e.Manager.EmitKV(ctx, t, a...)
}
func (e eventMgrDeco) EmitNonConsensus(ctx context.Context, ev protoiface.MessageV1) error {
	return e.Manager.EmitNonConsensus(ctx, ev)
}

type storeDeco struct {
	s   corestore.KVStoreService
	rec *Recorder
	lay *storeLayout
}

func (s storeDeco) OpenKVStore(ctx context.Context) corestore.KVStore {
	return kvDeco{s.s.OpenKVStore(ctx), s.rec, s.lay}
}

type kvDeco struct {
	kv  corestore.KVStore
	rec *Recorder
	lay *storeLayout
}

// storeLayout: which collection an orbiter-store key belongs to, LEARNED from the running code instead of read from
// the prefix table in types/core/keys.go (a change of the on-disk layout must not change any verdict):
//   - params: exactly the keys an UpdateParams by the authority writes;
//   - paused_protocols / paused_cross_chains / paused_actions: the common prefixes of the keys two different
//     pause messages of that kind write;
//   - every other key of the orbiter store is "stats" (the statistics and their indexes are the only other state the
//     module keeps; a collection added later lands here, which can only make the C03 verdict more lenient).
type storeLayout struct {
	params   map[string]bool
	prefixes []layoutPrefix // longest first
}

type layoutPrefix struct {
	p    []byte
	name string
}

func (l *storeLayout) classOf(key []byte) string {
	if l == nil || len(key) == 0 {
		return "?"
	}
	if l.params[string(key)] {
		return "params"
	}
	for _, lp := range l.prefixes {
		if bytes.HasPrefix(key, lp.p) {
			return lp.name
		}
	}
	return "stats"
}

func (l *storeLayout) String() string {
	var out []string
	for k := range l.params {
		out = append(out, "params="+hex.EncodeToString([]byte(k)))
	}
	for _, lp := range l.prefixes {
		out = append(out, lp.name+"="+hex.EncodeToString(lp.p)+"*")
	}
	sort.Strings(out)
	return strings.Join(out, " ")
}

var (
	layoutMu    sync.Mutex
	layoutCache = map[*World]*storeLayout{}
)

// learnLayout runs the admin messages on branches of W0 through the application's own Msg router and looks at the
// orbiter-store keys they change.
func (w *World) learnLayout() *storeLayout {
	layoutMu.Lock()
	defer layoutMu.Unlock()
	if l, ok := layoutCache[w]; ok {
		return l
	}
	changed := func(op Op) [][]byte {
		b := Branch(w.Ctx)
		pre := w.DumpStore(b, core.ModuleName)
		w.Apply(b, op)
		post := w.DumpStore(b, core.ModuleName)
		var keys [][]byte
		for k, v := range post {
			if pv, ok := pre[k]; !ok || pv != v {
				kb, _ := hex.DecodeString(k)
				keys = append(keys, kb)
			}
		}
		sort.Slice(keys, func(i, j int) bool { return bytes.Compare(keys[i], keys[j]) < 0 })
		return keys
	}
	l := &storeLayout{params: map[string]bool{}}
	for _, k := range changed(w.OpUpdateParams(7)) {
		l.params[string(k)] = true
	}
	lcp := func(a, b []byte) []byte {
		n := 0
		for n < len(a) && n < len(b) && a[n] == b[n] {
			n++
		}
		return a[:n]
	}
	learn := func(name string, a, b Op) {
		ka, kb := changed(a), changed(b)
		seen := map[string]bool{}
		for _, x := range ka {
			var best []byte
			for _, y := range kb {
				if c := lcp(x, y); len(c) > len(best) {
					best = c
				}
			}
			if len(best) > 0 && !seen[string(best)] {
				seen[string(best)] = true
				l.prefixes = append(l.prefixes, layoutPrefix{append([]byte{}, best...), name})
			}
		}
	}
	learn("paused_protocols", w.OpPauseProtocol("PROTOCOL_CCTP"), w.OpPauseProtocol("PROTOCOL_HYPERLANE"))
	learn("paused_cross_chains", w.OpPauseCC("PROTOCOL_CCTP", "0"), w.OpPauseCC("PROTOCOL_HYPERLANE", "1"))
	learn("paused_actions", w.OpPauseAction("ACTION_FEE"), w.OpPauseAction("ACTION_SWAP"))
	sort.SliceStable(l.prefixes, func(i, j int) bool { return len(l.prefixes[i].p) > len(l.prefixes[j].p) })
	layoutCache[w] = l
	return l
}

func (k kvDeco) Get(key []byte) ([]byte, error) {
	if k.rec.hit("store.Get["+k.lay.classOf(key)+"]", "", nil, true) {
		return nil, errInjected
	}
	return k.kv.Get(key)
}
func (k kvDeco) Has(key []byte) (bool, error) {
	if k.rec.hit("store.Has["+k.lay.classOf(key)+"]", "", nil, true) {
		return false, errInjected
	}
	return k.kv.Has(key)
}
func (k kvDeco) Set(key, value []byte) error {
	if k.rec.hit("store.Set["+k.lay.classOf(key)+"]", "", nil, true) {
		return errInjected
	}
	return k.kv.Set(key, value)
}
func (k kvDeco) Delete(key []byte) error {
	if k.rec.hit("store.Delete["+k.lay.classOf(key)+"]", "", nil, true) {
		return errInjected
	}
	return k.kv.Delete(key)
}
func (k kvDeco) Iterator(start, end []byte) (corestore.Iterator, error) {
	if k.rec.hit("store.Iterator["+k.lay.classOf(start)+"]", "", nil, true) {
		return nil, errInjected
	}
	return k.kv.Iterator(start, end)
}
func (k kvDeco) ReverseIterator(start, end []byte) (corestore.Iterator, error) {
	if k.rec.hit("store.ReverseIterator["+k.lay.classOf(start)+"]", "", nil, true) {
		return nil, errInjected
	}
	return k.kv.ReverseIterator(start, end)
}

// innerDeco wraps the ICS-20 application below the orbiter middleware.
type innerDeco struct {
	porttypes.IBCModule
	in  *Instr
}

func (d innerDeco) OnRecvPacket(ctx sdk.Context, packet channeltypes.Packet, relayer sdk.AccAddress) ibcexported.Acknowledgement {
	rec := d.in.Rec
	w := d.in.W
	before := w.App.BankKeeper.GetAllBalances(ctx, w.Orb)
	faulted := rec.hit("inner.OnRecvPacket", "", nil, true)
	idx := len(rec.Calls) - 1
	if faulted {
		switch rec.InnerMode {
		case "error-ack":
			return channeltypes.NewErrorAcknowledgement(errInjected)
		case "no-credit":
			return channeltypes.NewResultAcknowledgement([]byte{1})
		}
	}
	ack := d.IBCModule.OnRecvPacket(ctx, packet, relayer)
	if faulted && ack.Success() {
		var data struct {
			Denom string `json:"denom"`
		}
		_ = jsonUnmarshal(packet.GetData(), &data)
		base := data.Denom[strings.LastIndex(data.Denom, "/")+1:]
		one := sdk.NewCoins(sdk.NewCoin(base, math.NewInt(1)))
		switch rec.InnerMode {
		case "credit-less":
			_ = w.App.BankKeeper.SendCoins(ctx, w.Orb, w.Carol, one)
		case "credit-more":
			if err := w.App.BankKeeper.SendCoins(ctx, w.Alice, w.Orb, one); err != nil {
				_ = w.App.BankKeeper.SendCoins(ctx, w.Escrow0, w.Orb, one)
			}
		}
	}
	after := w.App.BankKeeper.GetAllBalances(ctx, w.Orb)
	rec.Calls[idx].Args = fmt.Sprintf("ack.success=%v credited=%s", ack.Success(), after.Sub(minCoins(before, after)...))
	return ack
}

func minCoins(a, b sdk.Coins) sdk.Coins { return a.Min(b) }

// ------------------------------------------------------------------------- the stand

type Instr struct {
	W      *World
	Rec    *Recorder
	Keeper *orbkeeper.Keeper
	Stack  porttypes.IBCModule
	Swap   *swapController // nil unless registered
}

// NewInstr builds the instrumented stand on w. withSwap registers the harness' denomination-changing
// test controller under ACTION_SWAP (C06) and the repository's testdata.TestActionAttr type with it.
func NewInstr(w *World, withSwap bool) (in *Instr, err error) {
	defer func() {
		if r := recover(); r != nil {
			err = fmt.Errorf("instrumented stand construction panicked: %v", r)
		}
	}()
	rec := &Recorder{}
	in = &Instr{W: w, Rec: rec}
	app := w.App
	bank := bankDeco{app.BankKeeper, rec}
	evs := eventDeco{runtime.ProvideEventService(), rec}
	k2 := orbkeeper.NewKeeper(app.appCodec, addresscodec.NewBech32Codec("noble"), silentLogger, evs,
		storeDeco{runtime.NewKVStoreService(app.GetKey(core.ModuleName)), rec, w.learnLayout()}, w.Authority, bank)
	in.Keeper = k2

	cctp, err := forwardingctrl.NewCCTPController(k2.Forwarder().Logger(), cctpDeco{cctpkeeper.NewMsgServerImpl(app.CCTPKeeper), rec})
	if err != nil {
		return nil, err
	}
	hyp, err := forwardingctrl.NewHyperlaneController(k2.Forwarder().Logger(), hypDeco{forwardingtypes.NewHyperlaneHandler(
		warpkeeper.NewMsgServerImpl(app.WarpKeeper), warpkeeper.NewQueryServerImpl(app.WarpKeeper)), rec})
	if err != nil {
		return nil, err
	}
	internal, err := forwardingctrl.NewInternalController(k2.Forwarder().Logger(), bankMsgDeco{bankkeeper.NewMsgServerImpl(app.BankKeeper), rec})
	if err != nil {
		return nil, err
	}
	if err := k2.SetForwardingControllers(cctp, hyp, internal); err != nil {
		return nil, err
	}
	fee, err := actionctrl.NewFeeController(k2.Executor().Logger(), k2.Executor().EventService(), bank)
	if err != nil {
		return nil, err
	}
	acts := []orbtypes.ActionController{fee}
	if withSwap {
		app.interfaceRegistry.RegisterImplementations((*core.ActionAttributes)(nil), &testdata.TestActionAttr{})
		base, err := controller.NewBase(core.ACTION_SWAP)
		if err != nil {
			return nil, err
		}
		in.Swap = &swapController{BaseController: base, in: in}
		acts = append(acts, in.Swap)
	}
	if err := k2.SetActionControllers(acts...); err != nil {
		return nil, err
	}
	ibc, err := adapterctrl.NewIBCAdapter(k2.Codec(), k2.Adapter().Logger())
	if err != nil {
		return nil, err
	}
	if err := k2.SetAdapterControllers(ibc); err != nil {
		return nil, err
	}
	var st porttypes.IBCModule = innerDeco{transfer.NewIBCModule(app.TransferKeeper), in}
	st = entrypoint.NewIBCMiddleware(st, app.IBCKeeper.ChannelKeeper, k2.Adapter())
	in.Stack = blockibc.NewIBCMiddleware(st, app.FTFKeeper)
	return in, nil
}

// Recv on the instrumented stack with a fault plan.
func (in *Instr) Recv(ctx sdk.Context, p Pkt, plan map[int]bool, innerMode string) RecvResult {
	in.Rec.Reset(plan, innerMode)
	in.Rec.PanicMode = innerMode == "panic"
	return RecvOn(in.Stack, ctx, p)
}

// ------------------------------------------------------------------------- swapT (C06)

// swapController: a harness action controller under ACTION_SWAP. It moves the running coin to a pool
// account (carol) and pays twice as many uusdc back to the orbiter account, then updates the destination
// coin — so both amount and denomination change and CCTP / Hyperlane accept the result.
type swapController struct {
	*controller.BaseController[core.ActionID]
	in   *Instr
	Seen []sdk.Coin // the coin each invocation saw
}

func (s *swapController) HandlePacket(ctx context.Context, p *orbtypes.ActionPacket) error {
	attr, err := p.Action.CachedAttributes()
	if err != nil {
		return err
	}
	if _, ok := attr.(*testdata.TestActionAttr); !ok {
		return fmt.Errorf("swapT: unexpected attributes %T", attr)
	}
	w := s.in.W
	ta := p.TransferAttributes
	inCoin := sdk.NewCoin(ta.DestinationDenom(), ta.DestinationAmount())
	s.Seen = append(s.Seen, inCoin)
	s.in.Rec.hit("swapT.saw", inCoin.String(), nil, false)
	if err := w.App.BankKeeper.SendCoins(ctx, w.Orb, w.Carol, sdk.NewCoins(inCoin)); err != nil {
		return err
	}
	out := sdk.NewCoin(denomUSDC, inCoin.Amount.MulRaw(2))
	if err := w.App.BankKeeper.SendCoins(ctx, w.Alice, w.Orb, sdk.NewCoins(out)); err != nil {
		return err
	}
	// an action controller may update the two parts of the running coin in either order: odd incoming amounts write the
	// amount first, even ones the denomination first (the C06 amount menu has both)
	if out.Amount.BigInt().Bit(1) == 1 { // out = 2*in: bit 1 of out is bit 0 of in
		ta.SetDestinationAmount(out.Amount)
		ta.SetDestinationDenom(out.Denom)
	} else {
		ta.SetDestinationDenom(out.Denom)
		ta.SetDestinationAmount(out.Amount)
	}
	return nil
}

const swapActionJSON = `{"id":"ACTION_SWAP","attributes":{"@type":"/testpb.TestActionAttr","whatever":"x"}}`

// forwarderMsgServer: the repository's forwarder message server over the instrumented keeper.
type fwdReplaceMsg = forwardertypes.MsgReplaceDepositForBurn

func forwarderMsgServer(in *Instr) forwardertypes.MsgServer {
	return forwardercomp.NewMsgServer(in.Keeper.Forwarder(), in.Keeper)
}

// NewWiredStack: the module built once more over the same stores by the repository's own ProvideModule, with only the
// SELECTED groups of controllers injected by the repository's own Inject* functions (what an application gets that calls
// some of them and forgets the others), under the transfer stack the example application assembles.
func NewWiredStack(w *World, adapters, actions, forwardings bool) (st porttypes.IBCModule, err error) {
	defer func() {
		if r := recover(); r != nil {
			err = fmt.Errorf("partially wired module could not be built: %v", r)
		}
	}()
	app := w.App
	out := orbiter.ProvideModule(orbiter.ModuleInputs{Config: &modulev1.Module{Authority: w.Authority}, Codec: app.appCodec, AddressCodec: addresscodec.NewBech32Codec("noble"),
		Logger: silentLogger, EventService: runtime.ProvideEventService(), StoreService: runtime.NewKVStoreService(app.GetKey(core.ModuleName)), BankKeeper: app.BankKeeper})
	in := orbiter.ComponentsInputs{Orbiters: out.Keeper, BankKeeper: app.BankKeeper, CCTPKeeper: app.CCTPKeeper, WarpKeeper: app.WarpKeeper}
	if actions {
		orbiter.InjectActionControllers(in)
	}
	if forwardings {
		orbiter.InjectForwardingControllers(in)
	}
	if adapters {
		orbiter.InjectAdapterControllers(in)
	}
	st = entrypoint.NewIBCMiddleware(transfer.NewIBCModule(app.TransferKeeper), app.IBCKeeper.ChannelKeeper, out.Keeper.Adapter())
	return blockibc.NewIBCMiddleware(st, app.FTFKeeper), nil
}
