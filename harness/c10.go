package simapp

// C10 — only the authority can change module state through messages.
// E2 over the RPC surface: every Msg RPC of every service under noble.orbiter* is DISCOVERED at run time
// from the registered descriptors (so a newly added RPC is included; one without a route is reported),
// × signer strings × message bodies (hand-written valid body, zero body, reflection-generated bodies) × states.

import (
	"fmt"
	"reflect"
	"sort"
	"strings"

	msgv1 "cosmossdk.io/api/cosmos/msg/v1"
	"github.com/cosmos/btcutil/bech32"
	gogoproto "github.com/cosmos/gogoproto/proto"
	proto2 "google.golang.org/protobuf/proto"
	"google.golang.org/protobuf/reflect/protoreflect"

	"github.com/cosmos/cosmos-sdk/baseapp"
	addresscodec "github.com/cosmos/cosmos-sdk/codec/address"
	"github.com/cosmos/cosmos-sdk/runtime"
	sdk "github.com/cosmos/cosmos-sdk/types"
	"github.com/cosmos/cosmos-sdk/types/module"

	orbiter "github.com/noble-assets/orbiter/v2"
	modulev1 "github.com/noble-assets/orbiter/v2/api/module/v1"
	orbkeeper "github.com/noble-assets/orbiter/v2/keeper"
	"github.com/noble-assets/orbiter/v2/types/core"
)

type rpcInfo struct {
	Service, Method, Input string
	SignerField            string
	GoType                 reflect.Type
}

func discoverOrbiterMsgRPCs() ([]rpcInfo, error) {
	files, err := gogoproto.MergedRegistry()
	if err != nil {
		return nil, err
	}
	var out []rpcInfo
	files.RangeFiles(func(fd protoreflect.FileDescriptor) bool {
		if !strings.HasPrefix(string(fd.Package()), "noble.orbiter") {
			return true
		}
		for i := 0; i < fd.Services().Len(); i++ {
			sd := fd.Services().Get(i)
			if isMsg, _ := proto2.GetExtension(sd.Options(), msgv1.E_Service).(bool); !isMsg {
				continue
			}
			for j := 0; j < sd.Methods().Len(); j++ {
				md := sd.Methods().Get(j)
				signers, _ := proto2.GetExtension(md.Input().Options(), msgv1.E_Signer).([]string)
				ri := rpcInfo{Service: string(sd.FullName()), Method: string(md.Name()), Input: string(md.Input().FullName())}
				if len(signers) > 0 {
					ri.SignerField = signers[0]
				}
				if t := gogoproto.MessageType(ri.Input); t != nil {
					ri.GoType = t
				}
				out = append(out, ri)
			}
		}
		return true
	})
	sort.Slice(out, func(i, j int) bool { return out[i].Service+out[i].Method < out[j].Service+out[j].Method })
	return out, nil
}

// protoFields maps proto field names to struct field indexes of a gogoproto message type (pointer to struct).
func protoFields(t reflect.Type) map[string]int {
	st := t.Elem()
	m := map[string]int{}
	for i := 0; i < st.NumField(); i++ {
		tag := st.Field(i).Tag.Get("protobuf")
		for _, part := range strings.Split(tag, ",") {
			if strings.HasPrefix(part, "name=") {
				m[strings.TrimPrefix(part, "name=")] = i
			}
		}
	}
	return m
}

// menuFor returns up to three candidate values for a field type.
func menuFor(t reflect.Type, fieldName string) []reflect.Value {
	switch t.Kind() {
	case reflect.String:
		vals := []string{"", "PROTOCOL_CCTP", "0"}
		if strings.Contains(fieldName, "action") {
			vals = []string{"", "ACTION_FEE", "1"}
		}
		var out []reflect.Value
		for _, v := range vals {
			out = append(out, reflect.ValueOf(v).Convert(t))
		}
		return out
	case reflect.Uint32, reflect.Uint64, reflect.Int32, reflect.Int64:
		var out []reflect.Value
		for _, v := range []uint64{0, 1, 4294967295} {
			out = append(out, reflect.ValueOf(v).Convert(t))
		}
		return out
	case reflect.Slice:
		if t.Elem().Kind() == reflect.Uint8 {
			return []reflect.Value{reflect.Zero(t), reflect.ValueOf(nb(32, 9)).Convert(t), reflect.ValueOf([]byte{1}).Convert(t)}
		}
		if t.Elem().Kind() == reflect.String {
			return []reflect.Value{reflect.Zero(t), reflect.ValueOf([]string{"0"}).Convert(t), reflect.ValueOf([]string{"7", "8"}).Convert(t)}
		}
		return []reflect.Value{reflect.Zero(t)}
	case reflect.Struct:
		out := []reflect.Value{reflect.Zero(t)}
		// one non-zero variant: first numeric field set to 7
		v := reflect.New(t).Elem()
		for i := 0; i < t.NumField(); i++ {
			if k := t.Field(i).Type.Kind(); k == reflect.Uint32 || k == reflect.Uint64 {
				v.Field(i).SetUint(7)
				out = append(out, v)
				break
			}
		}
		return out
	case reflect.Bool:
		return []reflect.Value{reflect.ValueOf(false), reflect.ValueOf(true)}
	}
	return []reflect.Value{reflect.Zero(t)}
}

// generateBodies: all combinations of the per-field menus (messages with <= 4 non-signer fields).
func generateBodies(ri rpcInfo) []sdk.Msg {
	fields := protoFields(ri.GoType)
	var names []string
	for n := range fields {
		if n != ri.SignerField {
			names = append(names, n)
		}
	}
	sort.Strings(names)
	if len(names) > 4 {
		names = names[:4]
	}
	st := ri.GoType.Elem()
	var out []sdk.Msg
	var rec func(i int, cur reflect.Value)
	rec = func(i int, cur reflect.Value) {
		if i == len(names) {
			cp := reflect.New(st)
			cp.Elem().Set(cur)
			if m, ok := cp.Interface().(sdk.Msg); ok {
				out = append(out, m)
			}
			return
		}
		idx := fields[names[i]]
		for _, v := range menuFor(st.Field(idx).Type, names[i]) {
			next := reflect.New(st).Elem()
			next.Set(cur)
			next.Field(idx).Set(v)
			rec(i+1, next)
		}
	}
	rec(0, reflect.New(st).Elem())
	return out
}

func setSigner(m sdk.Msg, ri rpcInfo, signer string) sdk.Msg {
	v := reflect.ValueOf(m)
	cp := reflect.New(v.Elem().Type())
	cp.Elem().Set(v.Elem())
	idx, ok := protoFields(ri.GoType)[ri.SignerField]
	if ok {
		cp.Elem().Field(idx).SetString(signer)
	}
	return cp.Interface().(sdk.Msg)
}

func (w *World) c10Signers() []rcvEnc {
	auth := w.Authority
	authAddr := sdk.MustAccAddressFromBech32(auth)
	conv, _ := bech32.ConvertBits(authAddr.Bytes(), 8, 5, true)
	otherHRP, _ := bech32.Encode("cosmos", conv)
	last := auth[len(auth)-1]
	repl := byte('q')
	if last == 'q' {
		repl = 'p'
	}
	mixed := strings.ToUpper(auth[:10]) + auth[10:]
	dataUpper := auth[:6] + strings.ToUpper(auth[6:])
	kelvin := strings.Replace(auth, "k", "K", 1)
	longs := strings.Replace(auth, "s", "ſ", 1)
	all := []rcvEnc{
		{"mallory", w.Mallory.String()}, {"alice", w.Alice.String()}, {"orbiter-module", w.Orb.String()}, {"dust-collector", w.Dust.String()},
		{"gov-module", moduleAddr("gov").String()}, {"authority-one-char-changed", auth[:len(auth)-1] + string(repl)},
		{"authority-MiXed-case", mixed}, {"authority-data-upper", dataUpper}, {"authority-kelvin-sign", kelvin}, {"authority-long-s", longs},
		{"authority-other-hrp", otherHRP}, {"authority-bech32m", bech32mEncode("noble", conv)},
		{"authority-lead-space", " " + auth}, {"authority-trail-space", auth + " "}, {"authority-trail-nul", auth + "\x00"},
		{"empty", ""}, {"whitespace", " "}, {"not-bech32", "authority"}, {"authority-prefix", auth[:len(auth)-2]},
	}
	var out []rcvEnc
	for _, s := range all {
		if s.S != auth { // a variant rule that does not apply to this authority string yields the authority itself
			out = append(out, s)
		}
	}
	return out
}

func init() { register("C10", checkC10) }

func checkC10(tier string) *Report {
	rep := NewReport("C10", tier, "exploration")
	rep.Rule = "every Msg RPC discovered from the registered service descriptors × ~19 non-authority signer strings × (valid body, zero body, all combinations of per-field menus) × 4 states; plus the authority with the valid body. Non-trivial = a (RPC, signer, body) triple whose body would change state if the authority sent it"
	rep.Assumptions = []string{
		"messages are handed to the handlers resolved by the application's MsgServiceRouter, with baseapp's per-message rollback emulated (DESIGN §1.3.2); signature verification / ante handlers are outside that part (the property is about the handlers); a last phase sends every RPC in REAL signed transactions (named and signed by another account; naming the authority but signed by another account; signed by the authority) through the ante handler and baseapp",
		"an upper-case bech32 spelling of the authority decodes to the authority account and is therefore not in the must-fail signer list",
	}
	w, err := NewWorld()
	if err != nil {
		rep.HarnessError("fixture: %v", err)
		return rep
	}
	rpcs, err := discoverOrbiterMsgRPCs()
	if err != nil {
		rep.HarnessError("descriptor discovery: %v", err)
		return rep
	}
	var names []string
	for _, r := range rpcs {
		names = append(names, r.Service+"/"+r.Method)
	}
	rep.Extra["rpcs_discovered"] = names
	rep.Guard(len(rpcs) >= 8, "expected >= 8 orbiter Msg RPCs, discovered %d", len(rpcs))

	// hand-written valid bodies (authority must succeed with them)
	ctxPrior := Branch(w.Ctx)
	prior := TransferSpec{"channel-0", denomUSDC, "5000", w.Orb.String(), w.FwdCCTPCaller(0), nil}
	rp := w.Recv(ctxPrior, prior.Pkt())
	var origMsg []byte
	if ev := findEvent(rp.Events, "circle.cctp.v1.MessageSent"); ev != nil {
		_ = jsonUnmarshal([]byte(ev["message"]), &origMsg)
	}
	att := signAttestation(w, origMsg)
	valid := map[string]MsgSpec{
		"PauseProtocol":         {RPC: "PauseProtocol", Proto: "PROTOCOL_HYPERLANE"},
		"UnpauseProtocol":       {RPC: "UnpauseProtocol", Proto: "PROTOCOL_CCTP"},
		"PauseCrossChains":      {RPC: "PauseCrossChains", Proto: "PROTOCOL_CCTP", CPs: []string{"5", "6"}},
		"UnpauseCrossChains":    {RPC: "UnpauseCrossChains", Proto: "PROTOCOL_CCTP", CPs: []string{"0"}},
		"PauseAction":           {RPC: "PauseAction", Action: "ACTION_SWAP"},
		"UnpauseAction":         {RPC: "UnpauseAction", Action: "ACTION_FEE"},
		"UpdateParams":          {RPC: "UpdateParams", MaxSize: 77},
		"ReplaceDepositForBurn": {RPC: "ReplaceDepositForBurn", OrigMsg: origMsg, OrigAtt: att, NewCaller: nb(32, 44), NewRecipient: nb(32, 55)},
	}
	// states: W0-with-prior-burn and three with non-empty pause sets / changed params (so that unpause bodies are valid too)
	mkState := func(ops ...Op) sdk.Context {
		c := Branch(ctxPrior)
		for _, op := range ops {
			if r := w.Apply(c, op); !r.Succeeded() {
				rep.HarnessError("state construction failed at %s", op.Label)
			}
		}
		return c
	}
	states := map[string]sdk.Context{
		"S0(prior burn)": mkState(),
		"S1(paused CCTP, cc CCTP:0, FEE)": mkState(w.OpPauseProtocol("PROTOCOL_CCTP"), w.OpPauseCC("PROTOCOL_CCTP", "0"), w.OpPauseAction("ACTION_FEE")),
		"S2(params 9, paused all)":        mkState(w.OpUpdateParams(9), w.OpPauseProtocol("PROTOCOL_CCTP"), w.OpPauseProtocol("PROTOCOL_INTERNAL"), w.OpPauseCC("PROTOCOL_CCTP", "0"), w.OpPauseAction("ACTION_FEE")),
		"S3(stats+cc)":                    mkState(w.OpPauseCC("PROTOCOL_CCTP", "0", "7"), w.OpPauseProtocol("PROTOCOL_CCTP"), w.OpPauseAction("ACTION_FEE"), w.OpUpdateParams(1)),
	}
	var stateNames []string
	for n := range states {
		stateNames = append(stateNames, n)
	}
	sort.Strings(stateNames)
	signers := w.c10Signers()

	for _, ri := range rpcs {
		label := ri.Service + "/" + ri.Method
		if ri.GoType == nil || ri.SignerField == "" {
			rep.Violate(Violation{Kind: "rpc-without-go-type-or-signer", Sig: label, Replay: mustJSON(map[string]any{"rpc": label}), What: "Msg RPC " + label + " has no registered Go type or no cosmos.msg.v1.signer option"})
			continue
		}
		if w.App.MsgServiceRouter().HandlerByTypeURL("/"+ri.Input) == nil {
			rep.Violate(Violation{Kind: "rpc-without-route", Sig: label, Replay: mustJSON(map[string]any{"rpc": label}), What: "Msg RPC " + label + " is declared but has no handler in the Msg service router"})
			continue
		}
		var bodies []sdk.Msg
		var validBody sdk.Msg
		if vs, ok := valid[ri.Method]; ok {
			vs.Signer = "x"
			vb, err := vs.Build()
			if err == nil {
				validBody = vb
				bodies = append(bodies, vb)
			}
		}
		bodies = append(bodies, reflect.New(ri.GoType.Elem()).Interface().(sdk.Msg))
		bodies = append(bodies, generateBodies(ri)...)
		rep.Extra["bodies:"+ri.Method] = len(bodies)
		for _, sn := range stateNames {
			st := states[sn]
			pre := w.StateKey(st)
			// (1) authority + valid body succeeds (in at least the state where the body is applicable: all four by construction)
			if validBody != nil {
				// Unpause* of an element that is not paused (state S0) is redundant: the properties leave open whether
				// it fails or succeeds as a no-op, so neither outcome is judged there.
				redundant := sn == "S0(prior burn)" && strings.HasPrefix(ri.Method, "Unpause")
				b := Branch(st)
				res := w.Msg(b, setSigner(validBody, ri, w.Authority))
				rep.Count("evaluations", 1)
				if !res.OK || res.Panic != "" {
					// UnpauseCrossChains(CCTP,[0]) / Unpause* are only valid where the element is paused: skip S0
					if !redundant {
						rep.Violate(Violation{Kind: "authority-refused", Group: ri.Method, Sig: label + "|" + sn, Replay: mustJSON(map[string]any{"rpc": label, "state": sn}),
							What: fmt.Sprintf("authority with a valid body was refused by %s in %s: %s %s", label, sn, res.Err, res.Panic)})
					}
				} else {
					rep.Outcome("authority-succeeded")
					if w.StateKey(b) == pre && ri.Method != "ReplaceDepositForBurn" && !redundant {
						rep.Violate(Violation{Kind: "authority-no-effect", Group: ri.Method, Sig: label + "|" + sn, Replay: mustJSON(map[string]any{"rpc": label}), What: "authority's valid " + label + " succeeded without changing state"})
					}
				}
			} else {
				rep.Violate(Violation{Kind: "unknown-rpc-no-valid-body", Group: ri.Method, Sig: label, Replay: mustJSON(map[string]any{"rpc": label}),
					What: "newly discovered Msg RPC " + label + ": the harness has no valid body for it; the unauthorised half is still checked, add a body to cover the authorised half"})
			}
			// (2) every non-authority signer × every body: error and unchanged state
			for _, sg := range signers {
				for bi, body := range bodies {
					b := Branch(st)
					res := w.Msg(b, setSigner(body, ri, sg.S))
					rep.Count("evaluations", 1)
					sig := fmt.Sprintf("%s signer=%s body#%d state=%s", label, sg.Name, bi, sn)
					if bi == 0 && validBody != nil {
						rep.Distinct(fmt.Sprintf("%s|%s|%s", label, sg.Name, sn))
					}
					if res.Panic != "" {
						rep.Violate(Violation{Kind: "panic", Group: ri.Method + " signer=" + sg.Name, Sig: sig, Replay: mustJSON(map[string]any{"rpc": label, "signer": sg.S, "body": fmt.Sprint(body)}), What: "handler panicked: " + res.Panic + " " + sig})
						continue
					}
					if res.OK {
						rep.Violate(Violation{Kind: "non-authority-accepted", Group: ri.Method + " signer=" + sg.Name, Sig: sig, Replay: mustJSON(map[string]any{"rpc": label, "signer": sg.S, "body": fmt.Sprint(body)}),
							What: fmt.Sprintf("%s accepted signer %q (%s), which is not the authority %s [body %s]", label, sg.S, sg.Name, w.Authority, trunc(fmt.Sprint(body), 160))})
						continue
					}
					if w.StateKey(b) != pre {
						rep.Violate(Violation{Kind: "refused-but-state-changed", Group: ri.Method, Sig: sig, Replay: mustJSON(map[string]any{"rpc": label, "signer": sg.S}), What: "refused message changed state: " + sig})
						continue
					}
					rep.Outcome("non-authority-refused")
				}
			}
		}
		rep.Sample(map[string]any{"rpc": label, "signer_field": ri.SignerField, "bodies": len(bodies), "signers": len(signers), "states": len(states)})
	}
	c10AuthorityConfigs(rep, w, rpcs, valid, states["S0(prior burn)"], states["S1(paused CCTP, cc CCTP:0, FEE)"])
	// transaction level: the same RPCs in real signed transactions through the ante handler and baseapp (loop.go)
	if err := loopAuthorityCheck(rep, rpcs, valid); err != nil {
		rep.HarnessError("real transactions: %v", err)
	}
	rep.Guard(rep.Outcomes["real-tx-non-authority-refused"] >= 16 && rep.Outcomes["real-tx-authority-succeeded"] >= 7, "real transaction phase vacuous: %v", rep.Outcomes)
	rep.Guard(rep.Outcomes["authority-succeeded"] >= 8 && rep.Outcomes["non-authority-refused"] > 1000, "outcome classes missing: %v", rep.Outcomes)
	return rep
}

func signAttestation(w *World, msg []byte) []byte {
	return signWith(w.AttesterKeyHex, msg)
}

// c10AuthorityConfigs: "the configured authority" is a parameter of the module. The module is built again — by the
// repository's own ProvideModule / InjectComponents / RegisterMsgServers, over the same stores — for every way the
// `authority:` setting can be written (a module name, a module account's address, an ordinary address), and every RPC is
// sent with the address that setting denotes (must succeed) and with strings that are not that address — among them the
// setting's own text and other module names (must fail, state unchanged).
func c10AuthorityConfigs(rep *Report, w *World, rpcs []rpcInfo, valid map[string]MsgSpec, states ...sdk.Context) {
	app := w.App
	configs := []string{"gov", core.ModuleName, "bank", moduleAddr("gov").String(), w.Alice.String()}
	modNames := []string{"gov", core.ModuleName, "bank", "cctp", "transfer", "authority", "distribution"}
	done := 0
	for _, cfg := range configs {
		var router *baseapp.MsgServiceRouter
		err := func() (err error) {
			defer func() {
				if r := recover(); r != nil {
					err = fmt.Errorf("%v", r)
				}
			}()
			out := orbiter.ProvideModule(orbiter.ModuleInputs{Config: &modulev1.Module{Authority: cfg}, Codec: app.appCodec, AddressCodec: addresscodec.NewBech32Codec("noble"),
				Logger: silentLogger, EventService: runtime.ProvideEventService(), StoreService: runtime.NewKVStoreService(app.GetKey(core.ModuleName)), BankKeeper: app.BankKeeper})
			orbiter.InjectComponents(orbiter.ComponentsInputs{Orbiters: out.Keeper, BankKeeper: app.BankKeeper, CCTPKeeper: app.CCTPKeeper, WarpKeeper: app.WarpKeeper})
			router = baseapp.NewMsgServiceRouter()
			router.SetInterfaceRegistry(app.interfaceRegistry)
			orbkeeper.RegisterMsgServers(module.NewConfigurator(app.appCodec, router, baseapp.NewGRPCQueryRouter()), out.Keeper)
			return nil
		}()
		if err != nil {
			rep.HarnessError("module with authority %q could not be built: %v", cfg, err)
			return
		}
		// the address the setting denotes: itself when it is an address, otherwise the module account of that name
		expected := cfg
		if _, err := sdk.AccAddressFromBech32(cfg); err != nil {
			expected = moduleAddr(cfg).String()
		}
		signers := []rcvEnc{{"mallory", w.Mallory.String()}, {"app-yaml-authority", w.Authority}, {"empty", ""}}
		for _, n := range modNames {
			signers = append(signers, rcvEnc{"module-name:" + n, n}, rcvEnc{"module-address:" + n, moduleAddr(n).String()})
		}
		if cfg != expected {
			signers = append(signers, rcvEnc{"the-setting-text", cfg}, rcvEnc{"the-setting-text-padded", " " + cfg})
		}
		for _, ri := range rpcs {
			label := ri.Service + "/" + ri.Method
			if ri.GoType == nil || ri.SignerField == "" {
				continue
			}
			var bodies []sdk.Msg
			var validBody sdk.Msg
			if vs, ok := valid[ri.Method]; ok {
				vs.Signer = "x"
				if vb, err := vs.Build(); err == nil {
					validBody = vb
					bodies = append(bodies, vb)
				}
			}
			bodies = append(bodies, reflect.New(ri.GoType.Elem()).Interface().(sdk.Msg))
			for si, st := range states {
				pre := w.StateKey(st)
				if validBody != nil && !(si == 0 && strings.HasPrefix(ri.Method, "Unpause")) {
					b := Branch(st)
					res := MsgVia(router, b, setSigner(validBody, ri, expected))
					rep.Count("evaluations", 1)
					if !res.OK || res.Panic != "" {
						rep.Violate(Violation{Kind: "authority-refused", Group: ri.Method + " config", Sig: fmt.Sprintf("%s|config=%s|state#%d", label, cfg, si), Replay: mustJSON(map[string]any{"rpc": label, "authority_setting": cfg, "signer": expected}),
							What: fmt.Sprintf("module configured with authority %q (= %s): the authority's valid %s was refused: %s %s", cfg, expected, label, res.Err, res.Panic)})
					} else {
						rep.Outcome("config-authority-succeeded")
					}
				}
				for _, sg := range signers {
					if a, err := sdk.AccAddressFromBech32(sg.S); err == nil && a.String() == expected {
						continue
					}
					for bi, body := range bodies {
						b := Branch(st)
						res := MsgVia(router, b, setSigner(body, ri, sg.S))
						rep.Count("evaluations", 1)
						sig := fmt.Sprintf("%s config=%s signer=%s body#%d state#%d", label, cfg, sg.Name, bi, si)
						switch {
						case res.Panic != "":
							rep.Violate(Violation{Kind: "panic", Group: ri.Method + " config signer=" + sg.Name, Sig: sig, Replay: mustJSON(map[string]any{"rpc": label, "authority_setting": cfg, "signer": sg.S}), What: "handler panicked: " + res.Panic + " " + sig})
						case res.OK:
							rep.Violate(Violation{Kind: "non-authority-accepted", Group: ri.Method + " config signer=" + sg.Name, Sig: sig, Replay: mustJSON(map[string]any{"rpc": label, "authority_setting": cfg, "signer": sg.S, "body": fmt.Sprint(body)}),
								What: fmt.Sprintf("module configured with authority %q (= %s): %s accepted signer %q (%s)", cfg, expected, label, sg.S, sg.Name)})
						case w.StateKey(b) != pre:
							rep.Violate(Violation{Kind: "refused-but-state-changed", Group: ri.Method + " config", Sig: sig, Replay: mustJSON(map[string]any{"rpc": label, "authority_setting": cfg, "signer": sg.S}), What: "refused message changed state: " + sig})
						default:
							rep.Outcome("config-non-authority-refused")
							if bi == 0 {
								rep.Distinct(fmt.Sprintf("%s|config=%s|%s", label, cfg, sg.Name))
							}
						}
					}
				}
			}
		}
		done++
	}
	rep.Extra["authority_settings"] = configs
	rep.Guard(done == len(configs) && rep.Outcomes["config-authority-succeeded"] >= int64(8*len(configs)) && rep.Outcomes["config-non-authority-refused"] > 1000, "authority-configuration phase vacuous: %v", rep.Outcomes)
}
