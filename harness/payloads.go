package simapp

// payloads.go — memo builders. Valid payloads go through the module's own constructors and
// MarshalJSON; malformed ones are assembled from raw JSON so that nothing pre-validates them.

import (
	"encoding/base64"
	"encoding/json"
	"fmt"
	"strings"

	"cosmossdk.io/math"
	sdk "github.com/cosmos/cosmos-sdk/types"

	orbtypes "github.com/noble-assets/orbiter/v2/types"
	acttypes "github.com/noble-assets/orbiter/v2/types/controller/action"
	fwdtypes "github.com/noble-assets/orbiter/v2/types/controller/forwarding"
	"github.com/noble-assets/orbiter/v2/types/core"
)

const (
	urlCCTP     = "/noble.orbiter.controller.forwarding.v1.CCTPAttributes"
	urlHyp      = "/noble.orbiter.controller.forwarding.v1.HypAttributes"
	urlInternal = "/noble.orbiter.controller.forwarding.v1.InternalAttributes"
	urlFee      = "/noble.orbiter.controller.action.v2.FeeAttributes"
)

func b32(last byte) []byte {
	b := make([]byte, 32)
	b[31] = last
	return b
}

func b64(b []byte) string { return base64.StdEncoding.EncodeToString(b) }

// FeeSpec is one fee entry in harness notation: Bps>0 → basis points, else Fixed (string amount).
type FeeSpec struct {
	To       string
	Bps      uint32
	Fixed    string
	UseFixed bool `json:",omitempty"` // fixed entry even when Fixed == "" (empty amount string)
}

func (f FeeSpec) IsFixed() bool { return f.UseFixed || f.Fixed != "" }

func (f FeeSpec) String() string {
	if f.IsFixed() {
		return fmt.Sprintf("fix(%s)->%s", f.Fixed, shortAddr(f.To))
	}
	return fmt.Sprintf("bps(%d)->%s", f.Bps, shortAddr(f.To))
}

func shortAddr(a string) string {
	if len(a) > 12 {
		return a[:8] + ".." + a[len(a)-4:]
	}
	return a
}

// raw JSON for a fee action (no validation on our side)
func feeActionJSON(fees []FeeSpec) string {
	var parts []string
	for _, f := range fees {
		if f.IsFixed() {
			parts = append(parts, fmt.Sprintf(`{"recipient":%s,"amount":{"value":%s}}`, jstr(f.To), jstr(f.Fixed)))
		} else {
			parts = append(parts, fmt.Sprintf(`{"recipient":%s,"basis_points":{"value":%d}}`, jstr(f.To), f.Bps))
		}
	}
	return fmt.Sprintf(`{"id":"ACTION_FEE","attributes":{"@type":"%s","fees_info":[%s]}}`, urlFee, strings.Join(parts, ","))
}

func jstr(s string) string {
	b, _ := json.Marshal(s)
	return string(b)
}

// Fwd describes a forwarding in harness notation.
type Fwd struct {
	Kind string // "cctp" | "hyp" | "internal"
	Tag  string `json:",omitempty"` // display name override
	// SwapFirst: the payload starts with the harness' ACTION_SWAP test action (instrumented stand only)
	SwapFirst bool `json:",omitempty"`
	// cctp
	Domain uint32
	MintRecipient, Caller []byte
	// hyp
	Token, Recipient, Hook []byte
	HookMeta string
	GasLimit string // "" = absent
	MaxFee   string // "" = absent; coin string like "0uusdc"
	// internal
	To string
	Passthrough []byte
}

func (f Fwd) String() string {
	if f.Tag != "" {
		return f.Tag
	}
	switch f.Kind {
	case "cctp":
		c := ""
		if len(f.Caller) > 0 {
			c = "+caller"
		}
		return fmt.Sprintf("cctp(%d%s)", f.Domain, c)
	case "hyp":
		return fmt.Sprintf("hyp(%d)", f.Domain)
	default:
		return fmt.Sprintf("internal(%s)", shortAddr(f.To))
	}
}

func (f Fwd) protoName() string {
	switch f.Kind {
	case "cctp":
		return "PROTOCOL_CCTP"
	case "hyp":
		return "PROTOCOL_HYPERLANE"
	default:
		return "PROTOCOL_INTERNAL"
	}
}

func (f Fwd) attrsJSON() string {
	switch f.Kind {
	case "cctp":
		s := fmt.Sprintf(`{"@type":"%s","destination_domain":%d,"mint_recipient":"%s"`, urlCCTP, f.Domain, b64(f.MintRecipient))
		if len(f.Caller) > 0 {
			s += fmt.Sprintf(`,"destination_caller":"%s"`, b64(f.Caller))
		}
		return s + "}"
	case "hyp":
		s := fmt.Sprintf(`{"@type":"%s","token_id":"%s","destination_domain":%d,"recipient":"%s"`, urlHyp, b64(f.Token), f.Domain, b64(f.Recipient))
		if len(f.Hook) > 0 {
			s += fmt.Sprintf(`,"custom_hook_id":"%s"`, b64(f.Hook))
		}
		if f.HookMeta != "" {
			s += fmt.Sprintf(`,"custom_hook_metadata":%s`, jstr(f.HookMeta))
		}
		if f.GasLimit != "" {
			s += fmt.Sprintf(`,"gas_limit":%s`, jstr(f.GasLimit))
		}
		if f.MaxFee != "" {
			c, err := sdk.ParseCoinNormalized(f.MaxFee)
			if err == nil {
				s += fmt.Sprintf(`,"max_fee":{"denom":%s,"amount":%s}`, jstr(c.Denom), jstr(c.Amount.String()))
			} else {
				s += fmt.Sprintf(`,"max_fee":%s`, f.MaxFee) // raw JSON given
			}
		}
		return s + "}"
	default:
		return fmt.Sprintf(`{"@type":"%s","recipient":%s}`, urlInternal, jstr(f.To))
	}
}

// MemoJSON assembles the memo from raw JSON pieces (nothing validated by the harness).
func MemoJSON(f Fwd, actions ...string) string {
	fw := fmt.Sprintf(`{"protocol_id":"%s","attributes":%s`, f.protoName(), f.attrsJSON())
	if f.Passthrough != nil {
		fw += fmt.Sprintf(`,"passthrough_payload":"%s"`, b64(f.Passthrough))
	}
	fw += "}"
	if len(actions) == 0 {
		return fmt.Sprintf(`{"orbiter":{"forwarding":%s}}`, fw)
	}
	return fmt.Sprintf(`{"orbiter":{"pre_actions":[%s],"forwarding":%s}}`, strings.Join(actions, ","), fw)
}

// Memo with an optional fee list.
func Memo(f Fwd, fees []FeeSpec) string {
	if len(fees) == 0 {
		return MemoJSON(f)
	}
	return MemoJSON(f, feeActionJSON(fees))
}

// MemoViaConstructors builds the same payload through the module's public constructors and
// the module's MarshalJSON (used by C15 round-trip and as a cross-check of MemoJSON).
func (w *World) MemoViaConstructors(f Fwd, fees []FeeSpec) (string, *core.PayloadWrapper, error) {
	var fwd *core.Forwarding
	var err error
	switch f.Kind {
	case "cctp":
		fwd, err = fwdtypes.NewCCTPForwarding(f.Domain, f.MintRecipient, f.Caller, f.Passthrough)
	case "hyp":
		gas := math.ZeroInt()
		if f.GasLimit != "" {
			g, ok := math.NewIntFromString(f.GasLimit)
			if !ok {
				return "", nil, fmt.Errorf("bad gas %q", f.GasLimit)
			}
			gas = g
		}
		fee := sdk.Coin{}
		if f.MaxFee != "" {
			fee, err = sdk.ParseCoinNormalized(f.MaxFee)
			if err != nil {
				return "", nil, err
			}
		}
		fwd, err = fwdtypes.NewHyperlaneForwarding(f.Token, f.Domain, f.Recipient, f.Hook, f.HookMeta, gas, fee, f.Passthrough)
	default:
		fwd, err = fwdtypes.NewInternalForwarding(f.To)
	}
	if err != nil {
		return "", nil, err
	}
	var acts []*core.Action
	if len(fees) > 0 {
		var infos []*acttypes.FeeInfo
		for _, fs := range fees {
			var fi *acttypes.FeeInfo
			if fs.IsFixed() {
				a, err := acttypes.NewFeeAmount(fs.Fixed)
				if err != nil {
					return "", nil, err
				}
				fi, err = acttypes.NewFeeInfo(fs.To, a)
				if err != nil {
					return "", nil, err
				}
			} else {
				b, err := acttypes.NewFeeBasisPoints(fs.Bps)
				if err != nil {
					return "", nil, err
				}
				fi, err = acttypes.NewFeeInfo(fs.To, b)
				if err != nil {
					return "", nil, err
				}
			}
			infos = append(infos, fi)
		}
		a, err := acttypes.NewFeeAction(infos...)
		if err != nil {
			return "", nil, err
		}
		acts = append(acts, a)
	}
	pw, err := core.NewPayloadWrapper(fwd, acts...)
	if err != nil {
		return "", nil, err
	}
	bz, err := orbtypes.MarshalJSON(w.App.appCodec, pw)
	if err != nil {
		return "", nil, err
	}
	return string(bz), pw, nil
}

// Standard forwardings of the fixture.
func (w *World) FwdCCTP(domain uint32) Fwd { return Fwd{Kind: "cctp", Domain: domain, MintRecipient: b32(9)} }
func (w *World) FwdCCTPCaller(domain uint32) Fwd {
	return Fwd{Kind: "cctp", Domain: domain, MintRecipient: b32(9), Caller: b32(3)}
}
func (w *World) FwdHyp(domain uint32) Fwd {
	return Fwd{Kind: "hyp", Domain: domain, Token: w.TokenT0.Bytes(), Recipient: b32(5), GasLimit: "0", MaxFee: "0uusdc"}
}
func (w *World) FwdHypSyn() Fwd {
	return Fwd{Kind: "hyp", Tag: "hypSYN", Domain: 1, Token: w.TokenSyn.Bytes(), Recipient: b32(5), GasLimit: "0", MaxFee: "0uusdc"}
}
func (w *World) FwdHypIGP(maxFee string) Fwd {
	return Fwd{Kind: "hyp", Tag: "hypIGP(maxfee=" + maxFee + ")", Domain: 1, Token: w.TokenT1.Bytes(), Recipient: b32(5), GasLimit: "0", MaxFee: maxFee}
}
func (w *World) FwdInternal(to sdk.AccAddress) Fwd { return Fwd{Kind: "internal", To: to.String()} }
